"""C03 -- run result independent of node completion order; no completion lost (family `tm`).

Three layers (DESIGN.md 5 C03, Appendix A.1 / A.9):
  (a) protocol model   spec/TaskManager.tla model-checked by TLC: safety invariants exhaustively (batch + eager), liveness under weak
                       fairness, and the seeded protocol bugs of the model must be REJECTED (the invariants are not vacuous)
  (b) hook traces      real runs with the `verif` hooks of compose/graph_manager.go on (batch graphs, eager Workflows, 1-4 lanes,
                       jitter, gate policies, failing / panicking nodes); the ticketed tm.* events are validated by TLC against
                       spec/TMTrace.tla (events bound to the protocol actions, logged len(l) / len(done) / num asserted exactly)
  (c) confluence       every graph TLC enumerates from spec/TMGen.tla is run on the real engine under EVERY completion order the
                       mode allows (gates inside the node bodies); TLC judges the observations with spec/TMConf.tla (TMConfObs):
                       per-run rules + identical result / executions across the orders of a graph.  The same rule is
                       model-checked against the run-loop model spec/TMRun.tla.
A VIOLATION is only a rejection by TMTrace / TMConfObs of an observation of the REAL code that is rejected again when the case is
re-run.  Everything else (model failure, timeout, unreproduced rejection) is inconclusive (exit 2).
"""
import concurrent.futures
import json
import os
import random
import re
import time

import vlib
from vlib import log, Inconclusive

OVERLAY = {"compose/zz_verif_tm_test.go": os.path.join(vlib.HARNESS, "compose", "zz_verif_tm_test.go")}
JVMS = 4

# ------------------------------------------------------------------------------------------------ (a) protocol model

INVARIANTS = ["TypeOK", "NoLoss", "CollectedOnce", "ChanCap", "Mutex", "NoStall", "NumOK", "WaitOK", "SyncOK", "PanicIsError", "EndOK"]


def tm_cfg(tasks, eager, submits, per_submit, panics, *, bug="none", live=False, symmetry=True, drop=()):
    ts = ", ".join("t%d" % i for i in range(1, tasks + 1))
    lines = ["CONSTANTS", "  Tasks = {%s}" % ts, "  Eager = %s" % ("TRUE" if eager else "FALSE"), "  MaxSubmits = %d" % submits,
             "  MaxPerSubmit = %d" % per_submit, "  MaxPanics = %d" % panics, "  AllowWaitAll = %s" % ("TRUE" if eager else "FALSE"),
             '  Bug = "%s"' % bug, "SPECIFICATION " + ("FairSpec" if live else "Spec")]
    if symmetry and not live:
        lines.append("SYMMETRY Sym")
    lines += ["INVARIANT " + i for i in INVARIANTS if i not in drop]
    if live:
        lines += ["PROPERTY Term", "PROPERTY Handed"]
    return "\n".join(lines) + "\n"


def model_jobs(tier):
    """(name, cfg text, expectation) ; expectation: "pass" or the invariant that must be reported violated"""
    jobs = []
    if tier == "quick":
        jobs += [("batch-4x2", tm_cfg(4, False, 2, 4, 1), "pass"), ("eager-4x2", tm_cfg(4, True, 2, 4, 1), "pass"),
                 ("live-batch-3", tm_cfg(3, False, 2, 3, 1, live=True), "pass"), ("live-eager-3", tm_cfg(3, True, 2, 3, 1, live=True), "pass")]
    else:
        jobs += [("batch-7x3", tm_cfg(7, False, 3, 7, 2), "pass"), ("eager-7x3", tm_cfg(7, True, 3, 7, 2), "pass"),
                 ("batch-4x2", tm_cfg(4, False, 2, 4, 1), "pass"), ("eager-4x2", tm_cfg(4, True, 2, 4, 1), "pass"),
                 ("live-batch-4", tm_cfg(4, False, 2, 4, 1, live=True), "pass"), ("live-eager-4", tm_cfg(4, True, 2, 4, 1, live=True), "pass")]
    # seeded protocol bugs: the model with the bug must violate the named invariant (Mutex / TypeOK left out so that the
    # consequence, not the trivial cause, is what TLC reports)
    drop = ("Mutex", "TypeOK")
    jobs += [("bug-norefill", tm_cfg(4, False, 2, 4, 1, bug="norefill", drop=drop), "NoStall"),
             ("bug-unlocked", tm_cfg(4, True, 2, 4, 1, bug="unlocked", drop=drop), "NoLoss"),
             ("bug-nopushonpanic", tm_cfg(4, False, 2, 4, 1, bug="nopushonpanic", drop=drop), "NoLoss"),
             ("bug-refillfirst", tm_cfg(4, True, 2, 4, 1, bug="refillfirst", drop=drop), "NoStall")]
    # interrupt path of the run loop (TaskManagerInt): waitAll() before the interrupt is returned, eager and batch; the seeded
    # "interrupt path calls wait()" must violate EndOK in eager mode
    def icfg(eager, bug="none", live=False, drop=()):
        c = tm_cfg(3 if live else 4, eager, 2, 3 if live else 4, 1, drop=drop, live=live)
        c = c.replace("SPECIFICATION FairSpec", "SPECIFICATION IFairSpec").replace("SPECIFICATION Spec", "SPECIFICATION ISpec")
        c = c.replace("SYMMETRY Sym", "SYMMETRY ISym").replace('  Bug = "none"', '  Bug = "none"\n  IBug = "%s"' % bug)
        return c.replace("PROPERTY Term\nPROPERTY Handed\n", "PROPERTY IntReturns\n")
    jobs += [("int-eager-4x2", icfg(True), "pass", "TaskManagerInt"), ("int-batch-4x2", icfg(False), "pass", "TaskManagerInt"),
             ("int-live-eager-3", icfg(True, live=True), "pass", "TaskManagerInt"),
             ("bug-intwait", icfg(True, "intwait", drop=drop), "EndOK", "TaskManagerInt")]
    return jobs


def run_models(tier):
    jobs = model_jobs(tier)
    timeout = 2400 if tier == "thorough" else 400

    def one(job):
        name, cfg = job[0], job[1]
        big = name.endswith("7x3")
        return vlib.tlc(job[3] if len(job) > 3 else "MCTaskManager", "mc_%s.cfg" % name, files={"mc_%s.cfg" % name: cfg}, workers=4 if big else 2, timeout=timeout,
                        heap="8g" if big else "2g")
    with concurrent.futures.ThreadPoolExecutor(max_workers=JVMS if tier == "quick" else 3) as ex:
        runs = list(ex.map(one, jobs))
    out, states, trans = [], 0, 0
    for job, r in zip(jobs, runs):
        name, expect = job[0], job[2]
        rec = {"cfg": name, "distinct": r.distinct, "generated": r.generated, "depth": r.depth, "wall_s": round(r.wall_s, 1), "expect": expect}
        if expect == "pass":
            vlib.tlc_must_pass(r, "TaskManager " + name)
            states += r.distinct
            trans += r.generated
            rec["result"] = "holds"
        else:
            if r.timed_out or r.error != "invariant:" + expect:
                raise Inconclusive("TaskManager %s: the seeded protocol bug was expected to violate %s, TLC said %s\n%s" % (
                    name, expect, r.error, r.stdout[-1500:]))
            rec["result"] = "rejected:" + expect
        out.append(rec)
        log("  model TaskManager/%s: %s, %d distinct states, %d generated, depth %d, %.0fs" % (
            name, rec["result"], r.distinct, r.generated, r.depth, r.wall_s))
    return states, trans, out


def run_conf_model(tier):
    """Impl => P at engine level: the run-loop model TMRun (batch and eager collection over every TMGen graph, two runs per graph)
    obeys the rule of TMConf; seeded run-loop bugs must be rejected by it."""
    def text(cfg, bug=None):
        t = open(os.path.join(vlib.SPEC, cfg)).read()
        return t.replace('RBug = "none"', 'RBug = "%s"' % bug) if bug else t
    jobs = [("dag3", text("MC_TMRun_dag3.cfg"), "pass"), ("wf3", text("MC_TMRun_wf3.cfg"), "pass"), ("pregel3", text("MC_TMRun_pregel3.cfg"), "pass"),
            ("wf3i", text("MC_TMRun_wf3i.cfg"), "pass"), ("dag3i", text("MC_TMRun_dag3i.cfg"), "pass")]   # interrupt-after marks: waitAll + resume
    if tier == "thorough":
        jobs += [("dag4", text("MC_TMRun_dag4.cfg"), "pass"), ("wf4", text("MC_TMRun_wf4.cfg"), "pass")]
    jobs += [("bug-eagerbatch", text("MC_TMRun_dag3.cfg", "eagerbatch"), "RuleHolds"),
             ("bug-earlyreturn", text("MC_TMRun_wf3.cfg", "earlyreturn"), "RuleHolds"),
             ("bug-lostcompletion", text("MC_TMRun_wf3.cfg", "lostcompletion"), "RuleHolds"),
             ("bug-intwaitone", text("MC_TMRun_wf3i.cfg", "intwaitone"), "RuleHolds")]

    def one(job):
        return vlib.tlc("TMRun", "mcr_%s.cfg" % job[0], files={"mcr_%s.cfg" % job[0]: job[1]}, workers=4 if job[0].endswith("4") else 2,
                        timeout=1800, heap="6g")
    with concurrent.futures.ThreadPoolExecutor(max_workers=JVMS if tier == "quick" else 3) as ex:
        runs = list(ex.map(one, jobs))
    out, states, trans = [], 0, 0
    for (name, _, expect), r in zip(jobs, runs):
        rec = {"cfg": "TMRun/" + name, "distinct": r.distinct, "generated": r.generated, "depth": r.depth, "wall_s": round(r.wall_s, 1), "expect": expect}
        if expect == "pass":
            vlib.tlc_must_pass(r, "TMRun " + name)
            states += r.distinct
            trans += r.generated
            rec["result"] = "holds"
        else:
            why = re.findall(r'bad \|-> "([^"]*)"', r.stdout)
            if r.timed_out or r.error != "invariant:" + expect or not why:
                raise Inconclusive("TMRun %s: the seeded run-loop bug was expected to be rejected by the rule, TLC said %s\n%s" % (
                    name, r.error, r.stdout[-1500:]))
            rec["result"] = "rejected:" + why[-1]
        out.append(rec)
        log("  model TMRun/%s: %s, %d distinct states, %d generated, %.0fs" % (name, rec["result"], r.distinct, r.generated, r.wall_s))
    return states, trans, out


def apalache_attempt(ntasks, timeout):
    """Optional unbounded-length argument (thorough tier): IndInv of spec/TaskManagerInd.tla is an inductive invariant of the
    protocol for `ntasks` tasks, any number of submits / panics, batch and eager (Apalache, --length=1).  Never decides the verdict:
    unavailable / timeout is recorded; a counterexample to induction on the unchanged spec is a model problem (inconclusive)."""
    import shutil
    import subprocess
    if not shutil.which("apalache-mc"):
        return {"status": "apalache-mc not available"}
    d = vlib.mkscratch("verif-apa-")
    shutil.copy(os.path.join(vlib.SPEC, "TaskManager.tla"), d)
    t = open(os.path.join(vlib.SPEC, "TaskManagerInd.tla")).read()
    t = t.replace('"t1", "t2", "t3", "t4", "t5", "t6", "t7", "t8"', ", ".join('"t%d"' % i for i in range(1, ntasks + 1)))
    t = t.replace("MaxSubmits = 8 /\\ MaxPerSubmit = 8 /\\ MaxPanics = 8", "MaxSubmits = %d /\\ MaxPerSubmit = %d /\\ MaxPanics = %d" % ((ntasks,) * 3))
    t = t.replace("Gen(8)", "Gen(%d)" % ntasks).replace("0..8", "0..%d" % ntasks)
    with open(os.path.join(d, "TaskManagerInd.tla"), "w") as fh:
        fh.write(t)
    res = {"tasks": ntasks}
    t0 = time.time()
    for name, args in (("base", ["--init=Init", "--inv=IndInv", "--length=0"]), ("implies_safety", ["--init=IndInit", "--inv=Safety2", "--length=0"]),
                       ("step", ["--init=IndInit", "--inv=IndInv", "--length=1"])):
        try:
            p = subprocess.run(["apalache-mc", "check", "--cinit=CInit", "--out-dir=" + os.path.join(d, "out")] + args + ["TaskManagerInd.tla"],
                               cwd=d, stdout=subprocess.PIPE, stderr=subprocess.STDOUT, timeout=timeout)
            out = p.stdout.decode("utf-8", "replace")
            m = re.search(r"The outcome is: (\w+)", out)
            res[name] = m.group(1) if m else "failed(exit %d)" % p.returncode
        except subprocess.TimeoutExpired:
            res[name] = "timeout"
    res["wall_s"] = round(time.time() - t0, 1)
    res["status"] = "inductive" if all(res.get(k) == "NoError" for k in ("base", "implies_safety", "step")) else "not established"
    return res


# ------------------------------------------------------------------------------------------------ case generation

def gen_cfg(mode, n, max_edges, fail_kinds, dangling, max_br=0, max_rerun=0, max_mark=0, max_kind=0):
    """branch-free families use spec/TMGen.tla, families with branches spec/TMGenB.tla (same growth + statically selecting branches)"""
    return ('CONSTANTS\n  Mode = "%s"\n  N = %d\n  MaxEdges = %d\n%s  FailKinds = {%s}\n  AllowDangling = %s\n'
            'SPECIFICATION Spec\nINVARIANT Emit\nCHECK_DEADLOCK FALSE\n' % (
                mode, n, max_edges, "  MaxBr = %d\n" % max_br if max_br else "  MaxRerun = %d\n  MaxMark = %d\n  MaxKind = %d\n" % (max_rerun, max_mark, max_kind), ", ".join('"%s"' % k for k in fail_kinds),
                "TRUE" if dangling else "FALSE"))


def gen_graphs(families):
    """families: list of (name, mode, n, max_edges, fail_kinds, dangling[, max_br]).  Returns graphs (dicts with orders / probes) + stats."""
    def one(f):
        name, mode, n, me, fk, dang = f[:6]
        br = f[6] if len(f) > 6 else 0
        rr = f[7] if len(f) > 7 else 0
        mk = f[8] if len(f) > 8 else 0
        kd = f[9] if len(f) > 9 else 0
        return vlib.tlc("TMGenB" if br else "TMGen", "gen_%s.cfg" % name, files={"gen_%s.cfg" % name: gen_cfg(mode, n, me, fk, dang, br, rr, mk, kd)},
                        workers=2, timeout=3000, heap="4g")      # (generous: on a loaded machine the 4-node workflow universes take long)
    with concurrent.futures.ThreadPoolExecutor(max_workers=JVMS) as ex:
        runs = list(ex.map(one, families))
    graphs, stats = [], []
    for f, r in zip(families, runs):
        vlib.tlc_must_pass(r, "case generation " + f[0])
        seen = set()
        k = 0
        for t in r.tagged("CASE"):
            if len(t) != 1 or t[0] in seen:
                continue
            seen.add(t[0])
            g = json.loads(t[0])
            g["fam"] = f[0]
            g["orders"] = sorted(g["orders"])
            g["probes"] = sorted(g["probes"])
            graphs.append(g)
            k += 1
        stats.append({"family": f[0], "mode": f[1], "nodes": f[2], "max_edges": f[3], "fail_kinds": list(f[4]), "dangling": f[5], "max_branches": f[6] if len(f) > 6 else 0, "max_rerun": f[7] if len(f) > 7 else 0, "max_marks": f[8] if len(f) > 8 else 0, "max_edge_kinds": f[9] if len(f) > 9 else 0, "graphs": k,
                      "orders": sum(len(g["orders"]) for g in graphs if g["fam"] == f[0]),
                      "probes": sum(len(g["probes"]) for g in graphs if g["fam"] == f[0]), "tlc_distinct": r.distinct})
        log("  family %s: %d graphs, %d completion orders, %d probes (TLC %d distinct states, %.0fs)" % (
            f[0], k, stats[-1]["orders"], stats[-1]["probes"], r.distinct, r.wall_s))
    return graphs, stats


def order_cases(graphs):
    cases = []
    for gi, g in enumerate(graphs):
        base = {"grp": "g%d" % gi, "mode": g["mode"], "nodes": g["nodes"], "edges": g["edges"], "branches": g.get("branches", []),
                "fail": g["fail"], "rerun": g.get("rerun", []), "after": g.get("after", []), "before": g.get("before", []), "hook": False,
                "call": "stream" if gi % 3 == 2 else "invoke"}           # every third graph is run through Stream()
        k = 0
        for o in g["orders"]:
            k += 1
            cases.append(dict(base, id="g%d/o%d" % (gi, k), order=o))
        for p in g["probes"]:
            k += 1
            cases.append(dict(base, id="g%d/p%d" % (gi, k), order=[], probe={"hold": p[0], "until": p[1]}))
    return cases


GATES = ["none", "yield", "sleep", "barrier", "holdcoll"]


def sched_cfg(k, eager):
    ts = ", ".join('"t%d"' % i for i in range(1, k + 1))
    return ('CONSTANTS\n  Tasks = {%s}\n  Eager = %s\n  MaxSubmits = 1\n  MaxPerSubmit = %d\n  MaxPanics = 0\n  AllowWaitAll = FALSE\n'
            '  Bug = "none"\nINIT SInit\nNEXT SNext\nCONSTRAINT AllAtOnce\nINVARIANT Emit\nCHECK_DEADLOCK FALSE\n' % (
                ts, "TRUE" if eager else "FALSE", k))


def gen_schedules(tier):
    """Every order of critical sections (executor t / collector) that a behaviour of TaskManager.tla has, for one submit of k tasks."""
    jobs = [(k, eager) for k in (2, 3, 4) for eager in (False, True)]

    def one(job):
        k, eager = job
        name = "sched_%d_%s.cfg" % (k, "e" if eager else "b")
        return vlib.tlc("TMSched", name, files={name: sched_cfg(k, eager)}, workers=2, timeout=900, heap="4g")
    with concurrent.futures.ThreadPoolExecutor(max_workers=JVMS) as ex:
        runs = list(ex.map(one, jobs))
    out, stats = [], []
    for (k, eager), r in zip(jobs, runs):
        vlib.tlc_must_pass(r, "schedule generation k=%d eager=%s" % (k, eager))
        seen = set()
        for t in r.tagged("CASE"):
            if len(t) != 1 or t[0] in seen:
                continue
            seen.add(t[0])
            rec = json.loads(t[0])
            if not rec["cs"]:
                continue
            # task numbering of the harness: the synchronous task is the first task of the submit
            names = sorted({e[1] for e in rec["cs"] if e[0] == "E"})
            if rec["sync"] != "none":
                names = [rec["sync"]] + [n for n in names if n != rec["sync"]]
            num = {n: i + 1 for i, n in enumerate(names)}
            sched = ["C" if e[0] == "C" else "E%d" % num[e[1]] for e in rec["cs"]]
            if not any(x["k"] == k and x["eager"] == eager and x["sched"] == sched for x in out):
                out.append({"k": k, "eager": eager, "sched": sched})
        n = sum(1 for x in out if x["k"] == k and x["eager"] == eager)
        stats.append({"k": k, "eager": eager, "schedules": n, "tlc_distinct": r.distinct})
        log("  schedules k=%d %s: %d orders of critical sections (TLC %d distinct states, %.0fs)" % (k, "eager" if eager else "batch", n, r.distinct, r.wall_s))
    return out, stats


def sched_cases(tier, scheds, rnd):
    small = [x for x in scheds if x["k"] <= 3]
    big = [x for x in scheds if x["k"] == 4]
    if tier == "quick":
        rnd.shuffle(big)
        big = big[:600]
    cases = []
    for i, x in enumerate(small + big):
        mode = "wf" if x["eager"] else ("dag", "pregel")[i % 2]
        stages = 2 if (not x["eager"] and i % 3 == 0) else 1           # batch: the same order is replayed on the second step too
        cases.append(dict(lane_graph(mode, x["k"], stages), id="s%d" % i, grp="", order=[], hook=True, gate="sched", jit=0,
                          sched=x["sched"], seed=vlib.SEED * 100003 + i, call="stream" if i % 5 == 4 else "invoke"))
    return cases


def lane_graph(mode, lanes, stages, fail=None):
    nodes, edges = [], []
    for i in range(lanes):
        prev = "start"
        for s in range(stages):
            n = "n%d_%d" % (i, s)
            nodes.append(n)
            edges.append([prev, n])
            prev = n
        edges.append([prev, "end"])
    return {"mode": mode, "nodes": nodes, "edges": edges, "fail": fail or []}


def hook_cases(tier, graphs, rnd):
    """hook runs: 1-4 parallel lanes x 1-2 stages x mode x gate policy x jitter, failing / panicking nodes, plus generated graphs"""
    shapes = []
    reps = 1 if tier == "quick" else 4
    for _ in range(reps):
        for mode in ("dag", "pregel", "wf"):
            for lanes in (1, 2, 3, 4):
                for stages in (1, 2):
                    for gate in GATES:
                        for jit in (0, 30, 150):
                            shapes.append((lane_graph(mode, lanes, stages), gate, jit))
        for mode in ("dag", "pregel", "wf"):
            for lanes in (2, 3, 4):
                for kind in ("err", "panic"):
                    for gate in ("none", "sleep", "holdcoll"):
                        fn = "n%d_%d" % (rnd.randrange(lanes), rnd.randrange(2))
                        shapes.append((lane_graph(mode, lanes, 2, [{"n": fn, "kind": kind}]), gate, rnd.choice((0, 30, 150))))
        # two failures in one step (batch: both collected; eager: the first collected wins)
        for mode in ("dag", "wf"):
            shapes.append((lane_graph(mode, 3, 2, [{"n": "n0_0", "kind": "panic"}, {"n": "n2_0", "kind": "err"}]), "holdcoll", 30))
        # interrupt path: the after-node finishes first while 2-3 siblings are in flight; the run loop must collect all of them (waitAll)
        for mode in ("dag", "wf"):
            for lanes in (3, 4):
                for stages in (1, 2):
                    for gate in ("none", "sleep", "holdcoll"):
                        g = lane_graph(mode, lanes, stages)
                        g["after"] = ["n%d_0" % rnd.randrange(lanes)]
                        shapes.append((g, gate, rnd.choice((60, 150))))
    pool = [g for g in graphs]
    rnd.shuffle(pool)
    for g in pool[:120 * reps]:
        shapes.append(({"mode": g["mode"], "nodes": g["nodes"], "edges": g["edges"], "branches": g.get("branches", []), "fail": g["fail"]},
                       rnd.choice(GATES), rnd.choice((0, 30, 150))))
    cases = []
    for i, (g, gate, jit) in enumerate(shapes):
        cases.append(dict(g, id="h%d" % i, grp="", order=[], hook=True, gate=gate, jit=jit, seed=vlib.SEED * 100003 + i,
                          call="stream" if i % 4 == 3 else "invoke"))
    return cases


# ------------------------------------------------------------------------------------------------ replay

def replay(cases, *, repo=None, race=False, watchdog_ms=3000, timeout=900):
    d = vlib.mkscratch("verif-tm-")
    cf, oh, oc = os.path.join(d, "cases.ndjson"), os.path.join(d, "hook.ndjson"), os.path.join(d, "conf.ndjson")
    with open(cf, "w") as fh:
        for c in cases:
            fh.write(json.dumps(c, separators=(",", ":")) + "\n")
    code, output, wall = vlib.go_test("compose", OVERLAY, "^TestVerifTM$", race=race, timeout=timeout, repo=repo, args=["-test.v"],
                                      env={"VERIF_CASES": cf, "VERIF_OUT_HOOK": oh, "VERIF_OUT_CONF": oc,
                                           "VERIF_TM_WATCHDOG_MS": str(watchdog_ms)})
    if code != 0 and "verifTracer" in output and "undefined" in output:
        raise Inconclusive("the verif hooks of compose/graph_manager.go are missing in %s (hooks commit not present)\n%s" % (
            repo or vlib.REPO, output[-1500:]))
    m = re.search(r"VERIF-TM hook=(\d+)/(\d+) order=(\d+)/(\d+) hangs=(\d+)\+(\d+)", output)
    hl = vlib.read_lines(oh) if os.path.exists(oh) else []
    cl = vlib.read_lines(oc) if os.path.exists(oc) else []
    if code != 0 or not m:
        if "[build failed]" in output or not (hl or cl):
            vlib.go_must_run(code or 1, output, "tm replay")
        # the test process died while running cases (e.g. a mutated library panicked on an executor goroutine): what was recorded
        # up to then is still judged; without a rejection the check is inconclusive
        hcases = split_hook(hl)
        if hcases and not hcases[-1][1][-1].startswith('{"ev":"end"'):
            hl = hl[:len(hl) - len(hcases[-1][1])]            # the run that was in progress is incomplete
        stats = {"hook_ran": len(split_hook(hl)), "hook_total": sum(1 for c in cases if c.get("hook")),
                 "order_total": sum(1 for c in cases if not c.get("hook")), "hook_hangs": 0, "order_hangs": 0, "crashed": output[-3000:]}
    else:
        stats = dict(zip(("hook_ran", "hook_total", "order_ran", "order_total", "hook_hangs", "order_hangs"), map(int, m.groups())))
    # regroup the order observations: blocks were written in completion order; complete blocks only
    pos = {c["id"]: i for i, c in enumerate(cases)}
    blocks, cur = [], None
    for ln in cl:
        if ln.startswith('{"ev":"case"'):
            cur = [ln]
            blocks.append(cur)
        elif cur is not None:
            cur.append(ln)
    blocks = [b for b in blocks if b[-1].startswith('{"ev":"result"') or b[-1].startswith('{"ev":"error"') or b[-1].startswith('{"ev":"builderror"')]
    blocks.sort(key=lambda b: pos.get(json.loads(b[0])["id"], 1 << 30))
    cl = [ln for b in blocks for ln in b]
    stats.setdefault("order_ran", len(blocks))
    stats["wall_s"] = round(wall, 1)
    return hl, cl, stats


# ------------------------------------------------------------------------------------------------ validation: hook traces (TMTrace)

def split_hook(lines):
    """list of (case id, [lines]) ; a case = its `case` line up to the next one"""
    out, cur = [], None
    for ln in lines:
        if ln.startswith('{"ev":"case"'):
            cur = (json.loads(ln)["id"], [])
            out.append(cur)
        if cur is not None:
            cur[1].append(ln)
    return out


def _tmtrace(lines, timeout):
    r = vlib.tlc("TMTrace", "TMTrace.cfg", files={"trace.ndjson": "\n".join(lines) + "\n"}, workers=1, timeout=timeout, heap="3g")
    if r.timed_out:
        raise Inconclusive("TMTrace validation timed out")
    hw = [t[0] for t in r.tagged("HW")]
    if r.error is None:
        if not hw:
            raise Inconclusive("TMTrace: no high-water mark reported\n" + r.stdout[-2000:])
        return r, max(hw), None
    if r.error.startswith("invariant:"):
        # the reconstructed state violates a protocol invariant: the last consumed line is the culprit
        m = re.findall(r"^/\\ l = (\d+)$", r.stdout, re.M)
        if not m:
            raise Inconclusive("TMTrace: invariant violated but no state printed\n" + r.stdout[-2000:])
        return r, int(m[-1]) - 1, r.error.split(":", 1)[1]
    raise Inconclusive("TMTrace: TLC failed (%s)\n%s" % (r.error, r.stdout[-3000:]))


def hook_reason(ln, inv):
    e = json.loads(ln)
    if inv:
        return "invariant-%s-after-%s" % (inv, e["ev"])
    if e["ev"] == "end" and e.get("res") == "hang":
        return "hang"
    return "reject-at-" + e["ev"]


def validate_hook(lines, *, nproc=JVMS, timeout=900, max_bad=3, group=None):
    """Returns dict(states, transitions, bad=[(case id, reason, detail)], accepted=n).  A chunk whose high-water mark stops inside
    a case rejects that case; validation continues behind it (bounded by max_bad)."""
    cases = split_hook(lines)
    if not cases:
        return {"states": 0, "transitions": 0, "bad": [], "accepted": 0, "unvalidated": 0}
    if group:                      # one chunk per group of cases (re-runs: the repetitions of one original case)
        by = {}
        for c in cases:
            by.setdefault(group(c[0]), []).append(c)
        chunks = list(by.values())
    else:
        per = max(1, (len(cases) + nproc - 1) // nproc)
        chunks = [cases[i:i + per] for i in range(0, len(cases), per)]

    def one(chunk):
        states = trans = accepted = 0
        bad = []
        rest = chunk
        while rest and len(bad) < max_bad:
            flat = [ln for _, ls in rest for ln in ls]
            r, hw, inv = _tmtrace(flat, timeout)
            states += r.distinct
            trans += r.generated
            if hw == len(flat) + 1 and inv is None:
                accepted += len(rest)
                rest = []
                break
            # locate the case that contains line hw (1-based)
            pos = 0
            for k, (cid, ls) in enumerate(rest):
                if pos + len(ls) >= min(hw, len(flat)):
                    ln = ls[min(hw, len(flat)) - pos - 1]
                    ctx = ls[max(0, hw - pos - 6):hw - pos]
                    bad.append((cid, hook_reason(ln, inv), {"line": json.loads(ln), "context": [json.loads(x) for x in ctx], "trace": ls}))
                    accepted += k
                    rest = rest[k + 1:]
                    break
                pos += len(ls)
            else:
                raise Inconclusive("TMTrace: high-water mark %d outside the trace (%d lines)" % (hw, len(flat)))
        return states, trans, accepted, bad, len(rest)
    with concurrent.futures.ThreadPoolExecutor(max_workers=nproc) as ex:
        parts = list(ex.map(one, chunks))
    return {"states": sum(p[0] for p in parts), "transitions": sum(p[1] for p in parts), "accepted": sum(p[2] for p in parts),
            "bad": [b for p in parts for b in p[3]], "unvalidated": sum(p[4] for p in parts)}


# ------------------------------------------------------------------------------------------------ validation: confluence (TMConfObs)

def _grp_start():
    last = [None]

    def is_start(ln):
        if not ln.startswith('{"ev":"case"'):
            return False
        g = re.search(r'"grp":"([^"]*)"', ln).group(1)
        new = g != last[0]
        last[0] = g
        return new
    return is_start


def validate_conf(lines, *, nproc=JVMS, timeout=1200):
    return vlib.validate_traces("TMConfObs", "TMConfObs.cfg", lines, nproc=nproc, is_start=_grp_start(), timeout=timeout, heap="3g")


def index_conf(lines):
    idx, cur = {}, None
    for ln in lines:
        if ln.startswith('{"ev":"case"'):
            c = json.loads(ln)
            cur = c["id"]
            idx[cur] = (c, [ln])
        elif cur is not None:
            idx[cur][1].append(ln)
    return idx


def sig_of(reason):
    return "hang" if reason in ("hang", "run-hangs") else reason


# ------------------------------------------------------------------------------------------------ self test of the binding

def selftest(hook_lines, conf_lines):
    """Corrupt one recorded field and drop one line: the trace specs must reject both (BUILDING.md, Sensitivity 3)."""
    out = {}
    hc = [c for c in split_hook(hook_lines) if any('"tm.refill"' in x for x in c[1])][:6]
    if hc:
        flat = [ln for _, ls in hc for ln in ls]
        i = max(k for k, ln in enumerate(flat) if '"ev":"tm.refill"' in ln)
        e = json.loads(flat[i])
        e2 = dict(e, l=e["l"] + 1)
        corrupt = flat[:i] + ['{"ev":"tm.refill",' + json.dumps(e2)[1:].replace('"ev": "tm.refill", ', "")] + flat[i + 1:]
        j = max(k for k, ln in enumerate(flat) if '"ev":"tm.push"' in ln)
        dropped = flat[:j] + flat[j + 1:]
        for name, ls in (("hook_corrupt_len", corrupt), ("hook_drop_push", dropped)):
            r, hw, inv = _tmtrace(ls, 300)
            out[name] = "rejected" if (hw != len(ls) + 1 or inv) else "ACCEPTED"
    idx = index_conf(conf_lines)
    grp = {}
    for cid, (c, ls) in idx.items():
        grp.setdefault(c["grp"], []).append(cid)
    pick = next((g for g, ids in grp.items() if len(ids) >= 2 and all(any('"ev":"result"' in x for x in idx[i][1]) for i in ids)), None)
    if pick:
        flat = [ln for i in grp[pick] for ln in idx[i][1]]
        i = max(k for k, ln in enumerate(flat) if ln.startswith('{"ev":"result"'))
        e = json.loads(flat[i])
        corrupt = flat[:i] + ['{"ev":"result","v":%s}' % json.dumps(e["v"] + "x")] + flat[i + 1:]
        j = max(k for k, ln in enumerate(flat) if ln.startswith('{"ev":"done"'))
        dropped = flat[:j] + flat[j + 1:]
        for name, ls in (("conf_corrupt_result", corrupt), ("conf_drop_done", dropped)):
            res = vlib.validate_traces("TMConfObs", "TMConfObs.cfg", ls, nproc=1, is_start=_grp_start(), timeout=300)
            out[name] = "rejected" if res["bad"] else "ACCEPTED"
    if any(v != "rejected" for v in out.values()) or len(out) < 4:
        raise Inconclusive("self test of the trace binding failed: %s" % out)
    return out


# ------------------------------------------------------------------------------------------------ the check

ASSUMPTIONS = [
    "node bodies are the harness's deterministic term functions; graphs are acyclic, <= 4 nodes (order cases) or 1-4 lanes x 1-2 stages (hook cases)",
    "reading of 'collected exactly once' (DESIGN 5 C03): at most once for every started execution, exactly once for every execution "
    "the run loop waits for (all of a batch; in eager mode the ancestors of END); executions orphaned by an early eager return are not judged",
    "when two concurrently running nodes both fail, which failure the run reports is not fixed by the statement: the result compared "
    "across completion orders is then 'the run fails' (with one failing node the reported node must be that node)",
    "the hook placement (tm.push before updateChan, under mu; ticket taken inside the hook) and the Go memory model are trusted; the "
    "Go scheduler between gates is not controlled: hook runs sample interleavings (jitter, yields, aligned executors), order runs force them",
    "TLC, the Json community module and the Go harness are trusted",
]


def families_for(tier, rnd):
    """(name, mode, nodes, max edges, fail kinds, dangling nodes, max branches)"""
    if tier == "quick":
        return [("dag3", "dag", 3, 9, ("err", "panic"), False, 0), ("pregel3", "pregel", 3, 9, ("err",), False, 0),
                ("wf3", "wf", 3, 9, ("err", "panic"), True, 0), ("pregel4", "pregel", 4, 14, (), False, 0),
                ("dag4", "dag", 4, 7, (), False, 0), ("wf4", "wf", 4, 7, (), True, 0),
                ("dag3b", "dag", 3, 5, (), False, 1), ("wf3b", "wf", 3, 5, (), True, 1),
                ("dag3r", "dag", 3, 9, (), False, 0, 2), ("wf3r", "wf", 3, 9, (), True, 0, 2),
                ("dag3i", "dag", 3, 9, (), False, 0, 0, 1), ("wf3i", "wf", 3, 9, (), True, 0, 0, 1), ("wf4i", "wf", 4, 6, (), True, 0, 0, 1),
                ("wf3k", "wf", 3, 9, (), True, 0, 0, 0, 1)]       # one edge control-only (AddDependency) or data-only
    return [("dag3", "dag", 3, 9, ("err", "panic"), False, 0), ("pregel3", "pregel", 3, 9, ("err", "panic"), False, 0),
            ("wf3", "wf", 3, 9, ("err", "panic"), True, 0), ("pregel4", "pregel", 4, 14, ("err",), False, 0),
            ("dag4", "dag", 4, 14, ("err",), False, 0), ("wf4", "wf", 4, 10, ("panic",), True, 0),
            ("dag3b", "dag", 3, 9, ("err",), False, 1), ("wf3b", "wf", 3, 9, ("err",), True, 1),
            ("dag3r", "dag", 3, 9, (), False, 0, 3), ("wf3r", "wf", 3, 9, (), True, 0, 3), ("pregel3r", "pregel", 3, 9, (), False, 0, 2),
            ("dag4r", "dag", 4, 14, (), False, 0, 1), ("wf4r", "wf", 4, 10, (), True, 0, 1),
            ("dag3i", "dag", 3, 9, (), False, 0, 0, 2), ("wf3i", "wf", 3, 9, (), True, 0, 0, 3), ("dag4i", "dag", 4, 14, (), False, 0, 0, 1),
            ("wf4i", "wf", 4, 10, (), True, 0, 0, 1),
            ("wf3k", "wf", 3, 9, (), True, 0, 0, 0, 2), ("wf4k", "wf", 4, 6, (), True, 0, 0, 0, 1)]


def c03(tier, repo=None):
    t0 = time.time()
    rnd = random.Random(vlib.SEED * 7919 + 3)
    log("[C03] tier=%s seed=%d repo=%s" % (tier, vlib.SEED, repo or vlib.REPO))
    # (a) models
    apa_future = None
    if tier == "thorough":
        apa_pool = concurrent.futures.ThreadPoolExecutor(max_workers=1)
        apa_future = apa_pool.submit(apalache_attempt, 6, 900)
    st_a, tr_a, model_runs = run_models(tier)
    st_c, tr_c, conf_model_runs = run_conf_model(tier)
    # generation
    graphs, gen_stats = gen_graphs(families_for(tier, rnd))
    exhaustive = True
    if tier == "quick":
        # all 3-node graphs (and the layered 4-node pregel graphs) with all their orders; a seeded slice of the 4-node universe
        small = [g for g in graphs if g["fam"] in ("dag3", "pregel3", "wf3", "pregel4")]
        big = [g for g in graphs if g["fam"] in ("dag4", "wf4")]
        br = [g for g in graphs if g["fam"] in ("dag3b", "wf3b") and g.get("branches")]
        rnd.shuffle(big)
        rnd.shuffle(br)
        rr = [g for g in graphs if g["fam"].endswith("r") and g.get("rerun")]          # all 3-node graphs x 1-2 rerun nodes
        ii = [g for g in graphs if g["fam"].endswith("i") and (g.get("after") or g.get("before"))]   # static interrupt marks
        wide = [g for g in ii if g["fam"] == "wf4i"]
        rnd.shuffle(wide)
        ii = [g for g in ii if g["fam"] != "wf4i"] + wide[:150]
        kk = [g for g in graphs if g["fam"].endswith("k") and any(len(e) > 2 and e[2] != "cd" for e in g["edges"])]
        graphs = small + big[:160] + br[:300] + rr + ii + kk
        exhaustive = False
    graphs = [g for g in graphs if g.get("branches") or not g["fam"].endswith("b")]
    graphs = [g for g in graphs if g.get("rerun") or not g["fam"].endswith("r")]        # rerun families: only the graphs with a rerun node
    graphs = [g for g in graphs if g.get("after") or g.get("before") or not g["fam"].endswith("i")]
    graphs = [g for g in graphs if any(len(e) > 2 and e[2] != "cd" for e in g["edges"]) or not g["fam"].endswith("k")]      # branch families also grow the branch-free graphs again
    ocases = order_cases(graphs)
    scheds, sched_stats = gen_schedules(tier)
    hcases = hook_cases(tier, graphs, rnd) + sched_cases(tier, scheds, rnd)
    by_id = {c["id"]: c for c in ocases + hcases}
    hook_lines, conf_lines, rstats = replay(hcases + ocases, repo=repo, timeout=1500)
    log("  replayed %d hook runs (%d events) and %d forced-order runs (%d observations) on the real engine, %.0fs, hangs %d+%d" % (
        rstats["hook_ran"], len(hook_lines), rstats["order_ran"], len(conf_lines), rstats["wall_s"], rstats["hook_hangs"], rstats["order_hangs"]))
    hres = validate_hook(hook_lines)
    cres = validate_conf(conf_lines)
    sched_runs = sum(1 for ln in hook_lines if ln.startswith('{"ev":"case"') and '"gate":"sched"' in ln)
    sched_drift = sum(1 for ln in hook_lines if ln.startswith('{"ev":"sched.timeout"'))
    if sched_drift:
        log("DRIFT: %d of %d TLC-generated orders of critical sections could not be followed by the real task manager "
            "(model/code divergence or scheduling delay; the runs themselves are judged by TMTrace)" % (sched_drift, sched_runs))
    idx = index_conf(conf_lines)
    notes = [b for b in cres["bad"] if str(b[2]).startswith("NOTE:")]
    if notes:
        raise Inconclusive("harness could not build %d generated graphs, e.g. %s: %s" % (len(notes), notes[0][0], idx[notes[0][0]][1][:3]))
    log("  TMTrace: %d hook runs accepted, %d rejected, %d not validated (%d states); TMConfObs: %d runs judged, %d rejected (%d states)" % (
        hres["accepted"], len(hres["bad"]), hres["unvalidated"], hres["states"], len(idx), len(cres["bad"]), cres["states"]))

    # reproduce: a rejection counts only if the same case is rejected again with the same signature when it is re-run
    verdict = vlib.Verdict("C03")
    unreproduced = []
    hook_bad = [(cid, sig_of(reason), detail) for cid, reason, detail in hres["bad"]][:6]
    conf_bad = [(cid, sig_of(reason)) for cid, _, reason in cres["bad"]]
    conf_pick = conf_bad[:12]
    if hook_bad or conf_pick:
        again = []
        for cid, sig, _ in hook_bad:
            reps = 1 if sig == "hang" else 25           # races need the same window again: the case is repeated
            for k in range(reps):
                again.append(dict(by_id[cid], id="%s~%d" % (cid, k), seed=by_id[cid]["seed"] + 7 * k))
        grps = []
        for cid, _ in conf_pick:
            g = by_id[cid]["grp"]
            if g not in grps:
                grps.append(g)
        again += [c for c in ocases if c["grp"] in grps]
        h2, c2, _ = replay(again, repo=repo, timeout=900)
        hbad2 = {}
        for cid, reason, detail in validate_hook(h2, max_bad=2, group=lambda cid: cid.split("~")[0])["bad"]:
            hbad2.setdefault(cid.split("~")[0], set()).add(sig_of(reason))
        cbad2 = {(b[0], sig_of(b[2])) for b in validate_conf(c2)["bad"]} if c2 else set()
        for cid, sig, detail in hook_bad:
            if sig in hbad2.get(cid, ()):
                verdict.violation(sig, {"layer": "hook-trace", "case": by_id[cid], "rejected_line": detail["line"],
                                        "context": detail["context"], "trace": [json.loads(x) for x in detail["trace"]][:400]},
                                  "TMTrace rejects the hook trace of %s: %s at %s" % (cid, sig, json.dumps(detail["line"])[:300]))
            else:
                unreproduced.append((cid, sig))
        for cid, sig in conf_pick:
            if (cid, sig) in cbad2:
                verdict.violation(sig, {"layer": "forced-order", "case": by_id[cid], "observations": [json.loads(x) for x in idx[cid][1]]},
                                  "TMConfObs rejects run %s: %s" % (cid, sig))
            else:
                unreproduced.append((cid, sig))
    code, n_new, n_known = verdict.finish()
    if unreproduced and code == 0:
        os.makedirs(os.path.join(vlib.ROOT, "replays"), exist_ok=True)
        path = os.path.join(vlib.ROOT, "replays", "C03-unreproduced-%d.json" % vlib.SEED)
        with open(path, "w") as fh:
            json.dump({"unreproduced": unreproduced, "hook": [b[2] for b in hres["bad"] if (b[0], sig_of(b[1])) in unreproduced][:3]}, fh, indent=1, default=str)
        log("  NOTE: %d rejections did not reproduce when the case was re-run (kept in %s): %s: not counted" % (len(unreproduced), path, unreproduced[:5]))
    for cid, sig in unreproduced:
        log("  note: rejection of %s (%s) did not reproduce on the re-run: not counted" % (cid, sig))
    if code == 0 and rstats.get("crashed"):
        raise Inconclusive("the go test process died during the replay and the recorded part of the traces was not rejected\n" + rstats["crashed"])
    if code == 0 and (hres["unvalidated"] or rstats["hook_ran"] < rstats["hook_total"] or rstats["order_ran"] < rstats["order_total"]):
        raise Inconclusive("not every case was run / validated although nothing was rejected: %s, unvalidated=%d" % (rstats, hres["unvalidated"]))

    st = selftest(hook_lines, conf_lines) if code == 0 else {}
    apalache = {"status": "not attempted in the quick tier (measured: inductive for 8 tasks in 5m39s, see notes/tm.md)"}
    if apa_future is not None:
        apalache = apa_future.result()
        log("  Apalache inductive invariant (TaskManagerInd, %s tasks): %s" % (apalache.get("tasks"), apalache))
        if "Error" in [apalache.get(k) for k in ("base", "implies_safety", "step")]:
            raise Inconclusive("Apalache found a counterexample to induction for IndInv on the protocol model: %s" % apalache)

    # coverage measures
    hook_sigs, max_l = set(), 0
    for cid, ls in split_hook(hook_lines):
        evs = [json.loads(x) for x in ls]
        ml = max([e["l"] for e in evs if e["ev"] in ("tm.push", "tm.pushdone", "tm.refill")] + [0])
        max_l = max(max_l, ml)
        pushes = tuple(e["task"] for e in evs if e["ev"] == "tm.push")
        shape = tuple(e["ev"][3:6] for e in evs if e["ev"].startswith("tm."))
        if ml >= 1 and any(e["ev"] == "tm.pushdone" and e["l"] >= 1 for e in evs):
            hook_sigs.add((evs[0]["gmode"], pushes, shape))
    orders_seen = {}
    for cid, (c, ls) in idx.items():
        seq = tuple(json.loads(x)["n"] for x in ls if x.startswith('{"ev":"done"') or x.startswith('{"ev":"failed"'))
        orders_seen.setdefault(c["grp"], set()).add(seq)
    multi = sum(1 for g, s in orders_seen.items() if len(s) >= 2)
    distinct_orders = sum(len(s) for s in orders_seen.values())
    some_h = vlib.sample(split_hook(hook_lines), 2)
    some_c = [idx[k] for k in vlib.sample(sorted(idx.keys()), 2)]
    cov = {"states": st_a + st_c, "transitions": tr_a + tr_c,
           "traces_validated_against_impl": hres["accepted"] + len(idx) - len(cres["bad"]),
           "evaluations": rstats["hook_ran"] + rstats["order_ran"],
           "distinct_nontrivial": len(hook_sigs) + distinct_orders,
           "rule": "hook runs: lanes(1-4) x stages(1-2) x {dag, pregel, wf} x gate policy x jitter, failing/panicking nodes, plus TMGen graphs, "
                   "scheduling seeded by VERIF_SEED; plus schedule replays: every order of critical sections of the TaskManager.tla behaviours "
                   "(one submit of 2-4 tasks, batch and eager; quick: all for k<=3 and a seeded slice for k=4) forced through the two gates; non-trivial = the overflow list was non-empty while a task was handed over (the 1-slot "
                   "channel was full), distinct = distinct (mode, push order, tm event sequence). "
                   "order runs: every graph TLC enumerates from spec/TMGen.tla (quick: all 3-node graphs + a seeded slice of the 4-node ones) x "
                   "EVERY completion order the mode allows + batch probes; distinct non-trivial = distinct completion sequences actually "
                   "observed (done/failed order), summed over graphs; groups_with_2+_orders counts graphs where confluence was really compared",
           "samples": [{"hook_case": cid, "events": [json.loads(x) for x in ls[:14]]} for cid, ls in some_h] +
                      [{"order_case": c, "observations": [json.loads(x) for x in o[1:10]]} for c, o in some_c],
           "exhaustive": exhaustive and tier == "thorough",
           "apalache_inductive_invariant": apalache, "model_runs": model_runs, "conf_model_runs": conf_model_runs, "families": gen_stats,
           "schedule_families": sched_stats, "schedule_replays": sched_runs, "schedule_replays_not_followed": sched_drift,
           "hook_runs": rstats["hook_ran"], "hook_events": len(hook_lines), "hook_runs_accepted": hres["accepted"],
           "hook_nontrivial_distinct": len(hook_sigs), "max_overflow_list_len": max_l, "tmtrace_states": hres["states"],
           "order_runs": rstats["order_ran"], "order_observations": len(conf_lines), "graphs": len(orders_seen),
           "groups_with_2+_orders": multi, "distinct_completion_orders_observed": distinct_orders, "tmconf_states": cres["states"],
           "rejected_hook_runs": len(hres["bad"]), "rejected_order_runs": len(cres["bad"]), "known_findings": n_known,
           "hangs": rstats["hook_hangs"] + rstats["order_hangs"], "selftest": st, "go_wall_s": rstats["wall_s"]}
    vlib.write_evidence("C03", tier, "model_checking", cov, assumptions=ASSUMPTIONS, wall_s=time.time() - t0, violations=n_new)
    log("[C03] %s: models %d states; %d hook runs accepted by TMTrace (%d non-trivial distinct, max list %d); %d forced-order runs judged "
        "(%d graphs, %d distinct orders observed); rejected %d+%d (%d known); %.0fs" % (
            "VIOLATION" if code else "ok", st_a + st_c, hres["accepted"], len(hook_sigs), max_l, len(idx), len(orders_seen), distinct_orders,
            len(hres["bad"]), len(cres["bad"]), n_known, time.time() - t0))
    return code


def replay_c03(path):
    """bin/check C03 --replay <file>: re-run the recorded case (its whole group for order cases) and judge it again."""
    rep = json.load(open(path))
    case = rep["case"]["case"]
    if rep["case"]["layer"] == "hook-trace":
        again = [dict(case, id="%s~%d" % (case["id"], k), seed=case.get("seed", 0) + 7 * k) for k in range(25)]
        h2, _, _ = replay(again)
        bad = [b for b in validate_hook(h2, max_bad=3)["bad"] if sig_of(b[1]) == rep["sig"]]
    else:
        fams = {"dag": ("dag", False), "pregel": ("pregel", False), "wf": ("wf", True)}
        n = len(case["nodes"])
        graphs, _ = gen_graphs([("r", fams[case["mode"]][0], n, 14, ("err", "panic"), fams[case["mode"]][1])])
        same = [g for g in graphs if g["edges"] == case["edges"] and g["fail"] == case["fail"]]
        cases = order_cases(same) if same else [case]
        _, c2, _ = replay(cases)
        bad = [b for b in validate_conf(c2)["bad"] if sig_of(b[2]) == rep["sig"]]
    if bad:
        log("VIOLATION property=C03 replay=%s" % path)
        log("  sig=%s reproduced (%d rejections)" % (rep["sig"], len(bad)))
        return 1
    log("[C03] replay %s: not rejected this time" % path)
    return 0


CHECKS = {"C03": c03}
REPLAY = {"C03": replay_c03}
