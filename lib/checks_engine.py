"""Checks of the engine family: C01, C02, C05, C06, C13 (and the engine-level part of C11).

Pipeline of every check (DESIGN.md 3.5):
  1. model level   TLC checks  EinoRun (implementation-shaped run loop) => RunRule (property-level rule)  exhaustively in small bounds
  2. generation    TLC (EinoGen) enumerates the scenarios of the property's families
  3. replay        the Go harness runs every scenario on the real engine and records observations
  4. verdict       TLC validates the observations against RunObs (= RunRule applied to the recorded lines);
                   only a rejection there, of an observation of REAL code, reproduced by a second run, is a VIOLATION
"""
import copy
import itertools, json
import os
import random
import time

import engine
import vlib
from vlib import log, Inconclusive

# ------------------------------------------------------------------------------------------------ reason ownership
# A rejection reason is reported by the check of the property whose clause it states.  Generic reasons (wrong input, node not
# triggered, wrong result ...) belong to the property whose rule governs the family the case comes from.
OWN = {
    "C06": {"before-node-ran-without-interrupt", "successor-of-after-node-started", "before-list-not-exact", "after-list-not-exact",
            "rerun-list-not-exact", "nested-interrupt-info-not-exact", "empty-interrupt", "interrupt-info-state-presence",
            "interrupt-info-state-mismatch", "checkpoint-not-written-exactly-once-under-the-id", "checkpoint-written-without-interrupt",
            "interrupt-while-node-running", "step-limit-error-hides-a-due-interrupt"},
    "C13": {"error-names-wrong-node-path", "cause-not-unwrappable", "unwrapped-cause-of-another-node", "panic-error-names-wrong-node-path",
            "max-steps-sentinel-not-matchable", "context-error-not-matchable", "panic-escaped-the-run", "run-hangs",
            "node-started-after-cancellation"},
    "C11": {"body-before-pre-handler", "state-trail-mismatch", "pre-handler-twice", "pre-handler-of-node-not-triggered",
            "pre-handler-without-state", "rerun-input-not-rebuilt-from-state", "state-update-lost-or-state-not-fresh",
            "post-handler-not-after-its-node", "successor-started-before-post-handler", "state-access-without-state",
            "state-access-in-unknown-frame", "state-access-blocked-after-callback-panic"},
}
SHARED = {"interrupt-while-node-running": {"C05", "C06", "C13"}, "step-limit-error-hides-a-due-interrupt": {"C06", "C05", "C01"}, "interrupt-info-state-mismatch": {"C05", "C06", "C11"},
          "state-trail-mismatch": {"C05", "C11"}, "rerun-input-not-rebuilt-from-state": {"C05", "C11"},
          "pre-handler-of-node-not-triggered": {"C05", "C11"}, "pre-handler-twice": {"C05", "C11"},
          "state-update-lost-or-state-not-fresh": {"C05", "C11"},
          "state-access-blocked-after-callback-panic": {"C11", "C13"},
          "run-hangs": {"C01", "C02", "C03", "C05", "C13"}, "panic-escaped-the-run": {"C05", "C13", "C01", "C02"}}


def owners(reason, default):
    if reason in SHARED:
        return SHARED[reason]
    for p, rs in OWN.items():
        if reason in rs:
            return {p}
    return {default}


def consts(mode, n, edges, br, d, marks=0, rerun=False, fail=False, multi=False, maxchoice=(0,), ends=2, orphans=False, dup=False):
    return {"Mode": mode, "N": n, "MaxEdges": edges, "MaxBr": br, "D": d, "MaxMarks": marks, "AllowRerun": rerun,
            "AllowFail": fail, "AllowMulti": multi, "MaxChoice": list(maxchoice), "MaxEnds": ends, "AllowOrphans": orphans, "AllowDup": dup}


INNER = [
    {"mode": "pregel", "nodes": ["s1", "s2"], "edges": [["start", "s1", "cd"], ["s1", "s2", "cd"], ["s2", "end", "cd"]], "branches": []},
    {"mode": "pregel", "nodes": ["s1", "s2"], "edges": [["start", "s1", "cd"], ["s2", "end", "cd"]],
     "branches": [{"from": "s1", "ends": ["s2", "end"], "multi": False, "pol": [["s2"], ["end"], ["s2"], ["end"]]}]},
    {"mode": "dag", "nodes": ["s1", "s2"], "edges": [["start", "s1", "cd"], ["start", "s2", "cd"], ["s1", "end", "cd"], ["s2", "end", "cd"]],
     "branches": []},
    # a cycle with its own step limit (compile option of the graph node): two rounds fit into max=4, not into max=2
    {"mode": "pregel", "nodes": ["s1", "s2"], "edges": [["start", "s1", "cd"], ["s1", "s2", "cd"]], "max": 4, "cyclic": True,
     "branches": [{"from": "s2", "ends": ["s1", "end"], "multi": False, "pol": [["s1"], ["s1"], ["s1"], ["end"], ["end"], ["end"], ["end"], ["end"], ["end"], ["end"]]}]},
    {"mode": "pregel", "nodes": ["s1", "s2"], "edges": [["start", "s1", "cd"], ["s1", "s2", "cd"]], "max": 2, "cyclic": True,
     "branches": [{"from": "s2", "ends": ["s1", "end"], "multi": False, "pol": [["s1"], ["s1"], ["s1"], ["end"], ["end"], ["end"], ["end"], ["end"], ["end"], ["end"]]}]},
]


def nest(scs, rnd, frac, marks=False):
    """Turn one lambda node of a fraction of the scenarios into a graph node (nesting depth 1) with a small inner graph."""
    out = []
    for sc in scs:
        if sc["mode"] == "wf" or rnd.random() >= frac:
            continue
        cand = [n for n in sc["nodes"] if n not in sc.get("rerun", [])]
        if not cand:
            continue
        n = cand[rnd.randrange(len(cand))]
        s2 = copy.deepcopy(sc)
        inner = copy.deepcopy(INNER[rnd.randrange(len(INNER))])
        inner["id"] = "inner"
        cyclic = inner.pop("cyclic", False)
        inner.update({"before": [], "after": [], "rerun": [], "fail": [], "max": inner.get("max", 0)})
        if cyclic and (marks or s2.get("fail")):
            continue                 # the cyclic inner shapes are for the step-limit clause only
        moved = [f for f in s2.get("fail", []) if f["n"] == n]
        if moved:           # the failing node moves inside the graph node: the error path must be [n, s2]
            s2["fail"] = [f for f in s2["fail"] if f["n"] != n]
            inner["fail"] = [{"n": "s2", "kind": moved[0]["kind"]}]
        if marks:
            k = rnd.randrange(4)
            if k == 1:
                inner["before"] = ["s2"]
            elif k == 2:
                inner["after"] = ["s1"]
            elif k == 3:
                inner["before"] = ["s1"]
            if rnd.random() < 0.2:
                inner["rerun"] = ["s2"]      # a node inside the graph node asks for interrupt-and-rerun (decorate makes the inner graph able to keep its input)
        s2["sub"] = {n: inner}
        if s2["mode"] == "pregel" and (s2.get("max", 0) == 0 or s2["max"] > 4):
            s2["max"] = 4             # terms double per step when an inner fan-in sits in an outer cycle: keep such runs short
        s2["fam"] = sc.get("fam", "") + "+nest"
        out.append(s2)
    return out


def model_check(cfgs, timeout, must_fail=()):
    """Impl => P on the model: EinoRun (run loop as coded) must satisfy RunRule for every scenario in the bound.
    must_fail: configurations of the model with a known defect switched on; TLC must find RuleHolds violated there, otherwise the
    rule would be vacuous for that mechanism (then the check is inconclusive, never a violation)."""
    states = trans = 0
    runs = []
    for cfg in must_fail:
        run = vlib.tlc("EinoRun", cfg, workers=min(vlib.NCPU, 8), timeout=timeout, heap="6g", stack="256m")
        if run.timed_out or run.error != "invariant:RuleHolds":
            raise Inconclusive("the defective model %s was not rejected by the rule (%s)" % (cfg, run.error))
        log("  model %s (defect switched on): rejected by the rule as expected after %d states" % (cfg, run.distinct))
        runs.append({"cfg": cfg, "expected": "RuleHolds violated", "distinct": run.distinct})
    for cfg in cfgs:
        run = vlib.tlc("EinoRun", cfg, workers=min(vlib.NCPU, 12), timeout=timeout, heap="8g", stack="256m")
        vlib.tlc_must_pass(run, "model check " + cfg)
        states += run.distinct
        trans += run.generated
        runs.append({"cfg": cfg, "distinct": run.distinct, "generated": run.generated, "depth": run.depth, "wall_s": round(run.wall_s, 1)})
        log("  model %s: %d distinct states, %d generated, depth %d, %.0fs" % (cfg, run.distinct, run.generated, run.depth, run.wall_s))
    return states, trans, runs


def nontrivial_signature(case, obs_lines):
    """distinct behaviours: (graph shape, marks, sequence of observation kinds)"""
    kinds = []
    for ln in obs_lines[1:]:
        ev = ln[7:ln.index('"', 7)]
        kinds.append(ev[0] if ev not in ("interrupt", "result", "error") else ev[:3])
    key = json.dumps([case["mode"], case["edges"], [(b["from"], b["ends"], b["multi"]) for b in case["branches"]], case["before"],
                      case["after"], case["rerun"], case["fail"], [s["node"] for s in case["subs"]]], sort_keys=True) + "".join(kinds)
    return key


def run_engine_check(prop, tier, *, model_cfgs, families, decorate_kw, nontrivial, nest_frac=0.0, nest_marks=False,
                     extra_scenarios=None, classify=None, limit=None, assumptions=(), repo=None, model_must_fail=(), extra_part=None):
    t0 = time.time()
    rnd = random.Random(vlib.SEED * 7919 + 13)
    log("[%s] tier=%s seed=%d repo=%s" % (prop, tier, vlib.SEED, repo or vlib.REPO))
    states, trans, model_runs = model_check(model_cfgs, timeout=1800 if tier == "thorough" else 600, must_fail=model_must_fail)
    scs, gen_stats = [], []
    for name, c, kw in families:
        fam, run = engine.gen_family(name, c, **kw)
        gen_stats.append({"family": name, "constants": c, "scenarios": len(fam), "tlc_distinct": run.distinct, "mode": "simulate" if kw.get("simulate") else "exhaustive"})
        log("  family %s: %d scenarios (TLC %d distinct states, %.0fs)" % (name, len(fam), run.distinct, run.wall_s))
        scs += fam
    exhaustive = all(g["mode"] == "exhaustive" for g in gen_stats)
    if limit and len(scs) > limit:
        rnd.shuffle(scs)
        scs = scs[:limit]
        exhaustive = False
    scs += nest(scs, rnd, nest_frac, nest_marks)
    if extra_scenarios:
        scs += extra_scenarios(rnd)
    engine.decorate(scs, seed=vlib.SEED, **decorate_kw)
    killed = []
    while True:
        try:
            lines, wall_go = engine.replay(scs, repo=repo)
            break
        except engine.ProcessKilled as k:
            # C13: "a panic inside a node body ... never kills the process".  Reproduce with that scenario alone, then go on without it.
            victim = [s for s in scs if s["id"] == k.case_id]
            again = False
            if victim:
                try:
                    engine.replay(victim, repo=repo)
                except engine.ProcessKilled:
                    again = True
            if not again or len(killed) >= 3:
                if not again:
                    raise Inconclusive("the test process died once while running %s but not when it was replayed alone\n%s" % (k.case_id, k.output))
                killed.append((victim[0], k.output))
                break
            killed.append((victim[0], k.output))
            scs = [s for s in scs if s["id"] != k.case_id and not (len(killed) >= 3)]
    if killed and len(killed) >= 3:
        lines, wall_go = [], 0.0
    log("  replayed %d scenarios on the real engine: %d observation lines, %.0fs" % (len(scs), len(lines), wall_go))
    res = engine.validate(lines)
    idx = engine.index_cases(lines)
    notes = [b for b in res["bad"] if str(b[2]).startswith("NOTE:")]
    bad = [b for b in res["bad"] if not str(b[2]).startswith("NOTE:")]
    if notes:
        raise Inconclusive("harness could not build %d generated scenarios, e.g. %s: %s" % (
            len(notes), notes[0][0], idx[notes[0][0]][1][:3]))
    verdict = vlib.Verdict(prop)
    mine, foreign = [], {}
    for cid, line_no, reason in bad:
        own = owners(reason, prop)
        if prop in own:
            mine.append((cid, reason))
        else:
            foreign[reason] = foreign.get(reason, 0) + 1
    for reason, k in sorted(foreign.items()):
        log("  note: %d cases rejected for '%s' (clause of %s; reported by that property's check)" % (k, reason, "/".join(sorted(owners(reason, prop)))))
    # reproduce: a rejection counts only if a second run of the same scenario is rejected for the same reason
    confirmed = []
    if mine:
        by_id = {sc["id"]: sc for sc in scs}
        again = [by_id[cid] for cid, _ in mine[:400]]
        lines2, _ = engine.replay(again, repo=repo)
        res2 = engine.validate(lines2, nproc=4)
        bad2 = {(b[0], b[2]) for b in res2["bad"]}
        idx2 = engine.index_cases(lines2)
        for cid, reason in mine[:400]:
            if (cid, reason) in bad2:
                confirmed.append((cid, reason, idx2[cid][1]))
            else:
                log("  note: rejection of %s (%s) did not reproduce on a second run: not counted" % (cid, reason))
    for cid, reason, obs in confirmed:
        case = idx[cid][0]
        sig = classify(case, reason, obs) if classify else reason
        verdict.violation(sig, {"scenario": {k: v for k, v in next(s for s in scs if s["id"] == cid).items()}, "observations": obs}, reason)
    extra_cov = {}
    if extra_part:
        n_cases, n_conf = extra_part(tier, repo, verdict.violation)
        extra_cov = {"extra_part_cases": n_cases, "extra_part_confirmed": n_conf}
    if "C13" == prop:
        for sc, output in killed:
            verdict.violation("node-panic-killed-the-process", {"scenario": sc, "go_test_output_tail": output[-1500:]}, "an injected node panic was not contained")
    elif killed:
        log("  note: %d scenarios killed the test process (injected panic not contained): clause of C13" % len(killed))
    code, n_new, n_known = verdict.finish()
    sigs = set()
    nontriv = 0
    for cid, (case, obs) in idx.items():
        if nontrivial(case, obs):
            s = nontrivial_signature(case, obs)
            if s not in sigs:
                sigs.add(s)
                nontriv += 1
    some = [idx[k] for k in vlib.sample(sorted(idx.keys()), 3)]
    cov = {"states": states, "transitions": trans, "traces_validated_against_impl": len(idx),
           "samples": [{"case": c, "observations": [json.loads(x) for x in o[1:12]]} for c, o in some],
           "evaluations": len(idx), "distinct_nontrivial": nontriv,
           "rule": "scenarios = every configuration TLC enumerates from spec/EinoGen.tla inside the family bounds below (graph x branch policy x marks), "
                   "secondary dimensions (paradigm per call, streaming nodes, stream-form branch conditions, nesting) spread by VERIF_SEED; "
                   "each is run on the real engine and its observation trace validated by TLC against spec/RunObs.tla; "
                   "distinct = distinct (shape, marks, observation-kind sequence); non-trivial = " + nontrivial.__doc__,
           "exhaustive": exhaustive, "model_runs": model_runs, "families": gen_stats,
           "observation_lines": len(lines), "trace_validation_states": res["states"],
           "rejected_cases": len(bad), "rejected_for_this_property": len(mine), "confirmed": len(confirmed), "known_findings": n_known}
    cov.update(extra_cov)
    vlib.write_evidence(prop, tier, "model_checking", cov, assumptions=list(assumptions) + [
        "node bodies are the harness's deterministic term functions; branch conditions are pure functions of the value depth",
        "TLC, the Json community module and the Go harness are trusted; graphs are bounded as listed under families"],
        wall_s=time.time() - t0, violations=n_new)
    log("[%s] %s: %d scenarios validated, %d distinct non-trivial, %d rejected for this property (%d known), %.0fs" % (
        prop, "VIOLATION" if code else "ok", len(idx), nontriv, len(mine), n_known, time.time() - t0))
    return code


# ------------------------------------------------------------------------------------------------ the checks

def _has(obs, kind):
    return any(ln.startswith('{"ev":"%s"' % kind) for ln in obs)


def c01(tier, repo=None):
    def nontrivial(case, obs):
        """the run executed at least two supersteps or evaluated a branch"""
        return sum(1 for ln in obs if ln.startswith('{"ev":"exec"')) >= 2 or _has(obs, "branch")
    if tier == "quick":
        fams = [("p3", consts("pregel", 3, 3, 1, 2, maxchoice=(3,)), {}),
                ("p2m", consts("pregel", 2, 3, 1, 1, multi=True, maxchoice=(0, 2), ends=3), {}),
                # two branches (also on the same node) with fan-out edges: sampled, the exhaustive family has 225 k scenarios
                ("p3bb", consts("pregel", 3, 3, 2, 1, multi=True, maxchoice=(4,), ends=3), {"simulate": "num=1000000", "depth": 16, "seed": vlib.SEED, "workers": 1, "sim_seconds": 25, "keep": 15000}),
                # a branch target that the same node also reaches by a plain edge (the value arrives twice, is delivered once)
                ("p2d", consts("pregel", 2, 3, 1, 1, maxchoice=(3,), dup=True), {})]
        models = ["MC_EinoRun_pregel2.cfg"]
    else:
        fams = [("p3", consts("pregel", 3, 4, 1, 2, maxchoice=(4,)), {"timeout": 1800}),
                ("p2m", consts("pregel", 2, 4, 1, 2, multi=True, maxchoice=(0, 2), ends=3), {}),
                ("p4s", consts("pregel", 4, 7, 2, 2, multi=True, maxchoice=(5,), ends=3), {"simulate": "num=10000000", "depth": 18, "seed": vlib.SEED, "workers": 1, "sim_seconds": 150, "keep": 60000}),
                ("p3d", consts("pregel", 3, 3, 1, 1, maxchoice=(3,), dup=True), {"timeout": 1800})]
        models = ["MC_EinoRun_pregel2.cfg", "MC_EinoRun_pregel3.cfg"]
    def chains(rnd):
        scs, run = engine.gen_chains("ChainGen_q.cfg" if tier == "quick" else "ChainGen_t.cfg")
        log("  family chain: %d chain scenarios (stage sequences x branch policies, TLC %d states) with their lowering" % (len(scs), run.distinct))
        return scs + nest(scs, rnd, 0.5)       # half of them once more with a stage member turned into a graph (AppendGraph / Parallel.AddGraph / ChainBranch.AddGraph)
    return run_engine_check("C01", tier, model_cfgs=models, families=fams, decorate_kw={"echo_frac": 0.12, "rmax_frac": 0.15, "anyout_frac": 0.1, "all_paradigms": True, "pipe_frac": 0.4, "dopt_frac": 0.3, "ccb_frac": 0.5}, nontrivial=nontrivial,
                            nest_frac=0.08, repo=repo, extra_scenarios=chains,
                            assumptions=["an edge and a branch of one source targeting the same node: any-predecessor mode only (families p2d / p3d); in all-predecessor mode the pair is outside the universe"])


def c02(tier, repo=None):
    def nontrivial(case, obs):
        """a branch was evaluated or some node has >= 2 predecessors (fan-in), i.e. trigger bookkeeping was exercised"""
        tgt = {}
        for e in case["edges"]:
            tgt[e[1]] = tgt.get(e[1], 0) + 1
        return _has(obs, "branch") or any(v >= 2 for k, v in tgt.items() if k != "end")

    def classify(case, reason, obs):
        return reason
    if tier == "quick":
        fams = [("d3", consts("dag", 3, 4, 1, 0, multi=True), {}),
                ("d3b", consts("dag", 3, 3, 2, 0), {}),
                ("w3", consts("wf", 3, 4, 1, 0, multi=True), {}),
                ("d2o", consts("dag", 2, 3, 1, 0, orphans=True), {}),
                # "at most once per run" includes runs that were interrupted and resumed: the trigger bookkeeping must survive the checkpoint
                ("d3i", consts("dag", 3, 3, 1, 0, marks=1), {}),
                ("w3i", consts("wf", 3, 3, 1, 0, marks=1), {})]
        models = ["MC_EinoRun_dag3.cfg", "MC_EinoRun_wf3q.cfg"]
        limit = 60000
    else:
        fams = [("d3", consts("dag", 3, 5, 2, 0, multi=True), {"timeout": 1800}),
                ("w3", consts("wf", 3, 5, 2, 0, multi=True), {"timeout": 1800}),
                ("d4s", consts("dag", 4, 7, 2, 0, multi=True, ends=3), {"simulate": "num=10000000", "depth": 18, "seed": vlib.SEED, "workers": 1, "sim_seconds": 150, "keep": 60000}),
                ("w4s", consts("wf", 4, 7, 2, 0, multi=True, ends=3), {"simulate": "num=10000000", "depth": 18, "seed": vlib.SEED, "workers": 1, "sim_seconds": 150, "keep": 60000}),
                ("d3o", consts("dag", 3, 4, 1, 0, orphans=True), {}),
                ("d3i", consts("dag", 3, 4, 1, 0, marks=2, multi=True), {"timeout": 1800}),
                ("w3i", consts("wf", 3, 4, 1, 0, marks=2), {"timeout": 1800})]
        models = ["MC_EinoRun_dag3.cfg", "MC_EinoRun_wf3.cfg"]
        limit = 250000
    return run_engine_check("C02", tier, model_cfgs=models, families=fams, decorate_kw={}, nontrivial=nontrivial, classify=classify,
                            nest_frac=0.05, limit=limit, repo=repo,
                            assumptions=["workflow data-only edges are only generated where a control path exists (documented requirement)",
                                         "the run returns as soon as END is assembled: side branches that do not feed END may be cut off (not judged)"])


def _intr_families(tier):
    if tier == "quick":
        return [("ip2", consts("pregel", 2, 3, 1, 2, marks=2, rerun=True, maxchoice=(3,)), {}),
                ("id3", consts("dag", 3, 3, 1, 0, marks=2, rerun=True), {}),
                ("iw3", consts("wf", 3, 4, 0, 0, marks=2, rerun=True), {}),
                ("iw3b", consts("wf", 3, 3, 1, 0, marks=1, rerun=True), {}),
                # two branches: a node can be skipped by several predecessors, on both sides of an interrupt
                ("id3bb", consts("dag", 3, 2, 2, 0, marks=1), {})], 44000
    return [("ip2", consts("pregel", 2, 4, 1, 2, marks=2, rerun=True, multi=True, maxchoice=(3,)), {"timeout": 1800}),
            ("ip3", consts("pregel", 3, 3, 1, 1, marks=2, rerun=True, maxchoice=(3,)), {"timeout": 1800}),
            ("id3", consts("dag", 3, 4, 1, 0, marks=2, rerun=True, multi=True), {"timeout": 1800}),
            ("iw3", consts("wf", 3, 4, 1, 0, marks=2, rerun=True), {"timeout": 1800}),
            ("ip4s", consts("pregel", 4, 6, 2, 2, marks=2, rerun=True, multi=True, maxchoice=(4,)), {"simulate": "num=10000000", "depth": 18, "seed": vlib.SEED, "workers": 1, "sim_seconds": 150, "keep": 60000}),
            ("id4s", consts("dag", 4, 7, 2, 0, marks=2, rerun=True, multi=True), {"simulate": "num=10000000", "depth": 18, "seed": vlib.SEED, "workers": 1, "sim_seconds": 150, "keep": 60000})], 200000


def c05(tier, repo=None):
    def nontrivial(case, obs):
        """the run was interrupted at least once and resumed"""
        return _has(obs, "resume")
    fams, limit = _intr_families(tier)
    return run_engine_check("C05", tier, model_cfgs=["MC_EinoRun_pregel2.cfg", "MC_EinoRun_nest_before.cfg"] + (["MC_EinoRun_dag3.cfg", "MC_EinoRun_nest_after.cfg"] if tier == "thorough" else []),
                            model_must_fail=["MC_EinoRun_nest_stale.cfg"],
                            families=fams, decorate_kw={"state_frac": 0.3, "rmax_frac": 0.08, "anyout_frac": 0.25, "all_paradigms": True}, nontrivial=nontrivial, nest_frac=0.12, nest_marks=True,
                            limit=limit, repo=repo,
                            assumptions=["the step counter restarts with every call, so cyclic graphs interrupted at every step are cut off after 12 node executions (giveup), never judged",
                                         "equivalence with the uninterrupted run is decided by the rule: every execution must be due with exactly the predicted input, so the executions with interrupt/resume marks removed are the uninterrupted run"])


def c06(tier, repo=None):
    def nontrivial(case, obs):
        """an interrupt was returned (before / after / rerun / nested)"""
        return _has(obs, "interrupt")
    fams, limit = _intr_families(tier)
    fams = fams + [("if2", consts("pregel", 2, 3, 1, 1, marks=1, fail=True, maxchoice=(3,)), {})]     # errors must not write a checkpoint
    return run_engine_check("C06", tier, model_cfgs=["MC_EinoRun_pregel2.cfg", "MC_EinoRun_nest_after.cfg"] + (["MC_EinoRun_dag3.cfg", "MC_EinoRun_nest_before.cfg"] if tier == "thorough" else []),
                            model_must_fail=["MC_EinoRun_nostartcheck.cfg"],
                            families=fams, decorate_kw={"noid_frac": 0.12, "state_frac": 0.3, "all_paradigms": True, "storefail_frac": 0.06, "empty_frac": 0.05, "rmax_frac": 0.15}, nontrivial=nontrivial, nest_frac=0.12,
                            nest_marks=True, limit=limit, repo=repo,
                            assumptions=["'stops before any of its successors starts' is read per the statement: only successors triggered by the after-node are constrained"])


def c13_tools_part(tier, repo, verdict_cb):
    """C13 also promises containment of a panic inside a TOOL CALL: panicking tools (any position, any completion order) in a
    ToolsNode that sits inside a graph, replayed with the C17 harness and judged by ToolsObs (spec/ToolsRule.tla); a rejection
    (hang, escaped panic, swallowed failure) in such a case is reported under C13 with its own signature."""
    try:
        import checks_tools as ct
    except ImportError:
        return 0, 0
    rnd = random.Random(vlib.SEED * 31 + 5)
    cs, run = ct.generate("C17", "c13-tool-panics", ct.t_consts(Eager=True, MaxCalls=3, MaxTools=3, MaxChunks=1, Behs=["ok", "panic"], Kinds=["inv", "str"]),
                          invariants=["RuleOK", "Closed"])
    cs = [c for c in cs if c.get("graph") and any(t["beh"] == "panic" for t in c["tools"])]
    rnd.shuffle(cs)
    cs = cs[: 500 if tier == "quick" else 4000]
    for i, c in enumerate(cs):
        c["id"] = "c13tool-%d" % i
        c["fam"] = "c13-tool-panics"
        c["wrap"] = rnd.random() < 0.3
        c["optlist"] = False

    def once(cases):
        code, output, wall, lines = ct.replay("C17", cases, repo=repo)
        if code != 0 and ("panic" in output or "fatal error" in output) and "build failed" not in output:
            lines, crashes, cases = ct.c17_crash_cases(cases, repo)
        else:
            vlib.go_must_run(code, output, "C13 tool-panic replay")
        res = ct.validate("C17", lines)
        return [(b[0], b[2]) for b in ct.bad_tuples(res)], ct.index_cases(lines)
    bad, idx = once(cs)
    bad = [b for b in bad if b[1] not in ("unknown-observation", "line-outside-a-case", "case-not-closed-by-an-end-line", "trace-ends-inside-a-case")]
    confirmed = 0
    if bad:
        by_id = {c["id"]: c for c in cs}
        bad2, idx2 = once([by_id[cid] for cid, _ in bad[:100] if cid in by_id])
        for cid, reason in bad[:100]:
            if (cid, reason) in set(bad2):
                confirmed += 1
                if confirmed <= 3:
                    verdict_cb("tool-panic-not-contained:" + reason.split("/")[0], {"tools_case": by_id[cid], "observations": idx2[cid][1][:30]}, reason)
    log("  tool-call panics inside a graph: %d cases (all completion orders) replayed on the real ToolsNode, %d rejected, %d confirmed" % (len(cs), len(bad), confirmed))
    return len(cs), confirmed


def c13(tier, repo=None):
    def nontrivial(case, obs):
        """the run ended in an error (node failure, panic, step limit, cancellation)"""
        return _has(obs, "error")

    def extra(rnd):
        """one superstep of 3-4 parallel nodes in which two ask for interrupt-and-rerun and finish BEFORE a third one fails: the
        failure must be what the run reports (every started node is awaited), in every completion order of the three"""
        out = []
        names = ["a", "b", "c", "d"]
        for width in (3, 4):
            for mode in ("pregel", "dag"):
                nodes = names[:width]
                edges = [["start", n, "cd"] for n in nodes] + [[n, "end", "cd"] for n in nodes]
                for kind in ("err", "panic"):
                    for order in itertools.permutations(range(3)):
                        for rep in range(2 if tier == "quick" else 8):
                            failing = nodes[2]
                            delay = {nodes[0]: order[0], nodes[1]: order[1], failing: order[2]}
                            for n in nodes[3:]:
                                delay[n] = rnd.randrange(4)
                            out.append({"mode": mode, "nodes": list(nodes), "edges": copy.deepcopy(edges), "branches": [], "max": 0, "before": [], "after": [],
                                        "rerun": nodes[:2], "state": True, "fail": [{"n": failing, "kind": kind}], "delay": delay, "fam": "par-rerun-fail"})
        # an error item in the middle of a node's output stream that reaches a fan-in through a converted (field-mapped) stream
        for mode in ("wf", "dag", "pregel"):
            for bad in ("a", "b"):
                for rep in range(3 if tier == "quick" else 12):
                    out.append({"mode": mode, "nodes": ["a", "b", "j"], "edges": [["start", "a", "cd"], ["start", "b", "cd"], ["a", "j", "cd"], ["b", "j", "cd"], ["j", "end", "cd"]],
                                "branches": [], "max": 0, "before": [], "after": [], "rerun": [], "state": False, "fail": [{"n": bad, "kind": "serr"}],
                                "delay": {"a": rnd.randrange(3), "b": rnd.randrange(3), "j": 0}, "fam": "serr-fanin", "nofv": True})
        return out
    if tier == "quick":
        fams = [("fp3", consts("pregel", 3, 3, 1, 1, fail=True, maxchoice=(3,)), {}),
                ("fd3", consts("dag", 3, 4, 1, 0, fail=True), {}),
                ("fw3", consts("wf", 3, 4, 0, 0, fail=True), {})]
        limit = 30000
    else:
        fams = [("fp3", consts("pregel", 3, 4, 1, 1, fail=True, maxchoice=(3,)), {"timeout": 1800}),
                ("fp2m", consts("pregel", 2, 3, 1, 2, fail=True, multi=True, maxchoice=(3,), ends=3), {"timeout": 1800}),
                ("fd3", consts("dag", 3, 4, 1, 0, fail=True, multi=True), {"timeout": 1800}),
                ("fw3", consts("wf", 3, 4, 1, 0, fail=True), {"timeout": 1800})]
        limit = 200000
    return run_engine_check("C13", tier, model_cfgs=["MC_EinoRun_fail2.cfg"], families=fams, decorate_kw={"fail_variants": True, "rmax_frac": 0.1},
                            nontrivial=nontrivial, nest_frac=0.15, limit=limit, repo=repo, extra_part=c13_tools_part, extra_scenarios=extra,
                            assumptions=["a failing side branch of an eager (workflow) run that does not feed END may go unreported when END is assembled first (not judged)"])


def c11_concurrent_part(tier, repo, verdict_cb):
    """'Each top-level run ... gets its own freshly generated state object': overlapping runs of ONE compiled stateful runnable,
    every run judged alone by the rule (its critical-section counter must start at 0 and never skip)."""
    rnd = random.Random(vlib.SEED * 613 + 3)
    scs, _ = engine.gen_family("sc3", consts("dag", 3, 4, 1, 0, marks=1, rerun=True), timeout=900)
    rnd.shuffle(scs)
    scs = scs[: 700 if tier == "quick" else 6000]
    engine.decorate(scs, seed=vlib.SEED + 17, state_variants=True)
    for sc in scs:
        sc["fail"] = [f for f in sc.get("fail", []) if f["kind"] != "cspanic"]
    callers = 4
    lines, wall, _ = engine.replay_concurrent(scs, callers=callers, repo=repo)
    res = engine.validate(lines, nproc=4)
    bad = [(b[0], b[2]) for b in res["bad"] if not str(b[2]).startswith("NOTE:") and "C11" in owners(b[2], "C11")]
    confirmed = 0
    if bad:
        by_id = {sc["id"]: sc for sc in scs}
        ids = sorted({cid.split("#")[0] for cid, _ in bad})[:60]
        lines2, _, _ = engine.replay_concurrent([by_id[i] for i in ids], callers=callers, repo=repo)
        res2 = engine.validate(lines2, nproc=4)
        again = {(b[0].split("#")[0], b[2]) for b in res2["bad"]}
        idx2 = engine.index_cases(lines2)
        seen = set()
        for cid, reason in bad:
            key = (cid.split("#")[0], reason)
            if key in again and key not in seen:
                seen.add(key)
                confirmed += 1
                if confirmed <= 3:
                    k = next(x for x in idx2 if x.split("#")[0] == key[0])
                    verdict_cb("overlapping-runs-share-state:" + reason, {"scenario": by_id[key[0]], "callers": callers, "observations": idx2[k][1][:40]}, reason)
    log("  overlapping runs of one compiled stateful graph: %d scenarios x %d runs, %d rejected, %d confirmed, %.0fs" % (len(scs), callers, len(bad), confirmed, wall))
    return len(scs) * callers, confirmed


def c11(tier, repo=None):
    def nontrivial(case, obs):
        """at least three critical sections on a state were observed (pre/post handlers, ProcessState in bodies)"""
        return sum(1 for ln in obs if ln.startswith('{"ev":"cs"')) >= 3
    if tier == "quick":
        fams = [("sd3", consts("dag", 3, 4, 1, 0, marks=1, rerun=True), {}),
                ("sw3", consts("wf", 3, 4, 0, 0, marks=1), {}),
                ("sp2", consts("pregel", 2, 3, 1, 1, marks=1, rerun=True, maxchoice=(3,)), {})]
        limit = 20000
    else:
        fams = [("sd3", consts("dag", 3, 4, 1, 0, marks=2, rerun=True, multi=True), {"timeout": 1800}),
                ("sw3", consts("wf", 3, 4, 1, 0, marks=2, rerun=True), {"timeout": 1800}),
                ("sp3", consts("pregel", 3, 3, 1, 1, marks=2, rerun=True, maxchoice=(3,)), {"timeout": 1800}),
                ("sd4s", consts("dag", 4, 7, 2, 0, marks=2, rerun=True, multi=True), {"simulate": "num=10000000", "depth": 18, "seed": vlib.SEED, "workers": 1, "sim_seconds": 150, "keep": 60000})]
        limit = 200000
    return run_engine_check("C11", tier, model_cfgs=["MC_EinoRun_pregel2.cfg"], families=fams, decorate_kw={"state_variants": True, "nilout_frac": 0.15},
                            nontrivial=nontrivial, nest_frac=0.15, nest_marks=True, limit=limit, repo=repo, extra_part=c11_concurrent_part,
                            assumptions=["every pre-handler, post-handler and ProcessState callback of the harness performs one read-yield-write critical section on a counter kept in the state and logs it inside the lock; the rule demands that each one sees exactly the number of sections performed before it on that state (fresh state per run and per execution of a stateful nested graph, no lost update, carried over interrupts, +100 when the caller's state modifier ran)",
                                         "the deprecated GetState accessor is outside the property",
                                         "data-race freedom itself is not a trace property: the thorough tier additionally runs the replay under the Go race detector"])


def wide_fanout_scenarios(reps=6):
    """A node with a branch AND 3 / 5 / 6 / 7 plain successors (the compiled successor slices then have spare capacity), different
    branch outcomes per concurrent run: per-run routing must not go through memory shared by the runs of one compiled graph."""
    out = []
    names = ["b", "c", "d", "e", "f", "g", "h"]
    for width in (3, 5, 6, 7):
        for mode in ("pregel", "dag"):
            succ = names[:width]
            nodes = ["a"] + succ + ["y", "z"]
            edges = [["start", "a", "cd"]] + [["a", n, "cd"] for n in succ] + [[n, "end", "cd"] for n in succ] + [["y", "end", "cd"], ["z", "end", "cd"]]
            out.append({"mode": mode, "nodes": nodes, "edges": edges, "fam": "wide",
                        "branches": [{"from": "a", "ends": ["y", "z"], "multi": False, "pol": [["y"], ["z"], ["y"], ["z"]]}],
                        "max": 0, "before": [], "after": [], "rerun": [], "state": False, "fail": []})
    return [copy.deepcopy(sc) for _ in range(reps) for sc in out]


def c09(tier, repo=None):
    """Graph level: one compiled runnable driven by N concurrent logical runs; every run must be, by the rule, the run it would
    have been alone (own input term, own state, own checkpoint id).  Agent level (ReAct, host multi-agent): lib/checks_agents.py.
    Data races: the same replays once more under the Go race detector."""
    t0 = time.time()
    prop = "C09"
    rnd = random.Random(vlib.SEED * 104729 + 7)
    log("[C09] tier=%s seed=%d repo=%s" % (tier, vlib.SEED, repo or vlib.REPO))
    states, trans, model_runs = model_check(["MC_EinoRun_pregel2.cfg"], timeout=900)
    quick = tier == "quick"
    fams = [("cp2", consts("pregel", 2, 3, 1, 2, marks=2, rerun=True, maxchoice=(3,)), {}),
            ("cd3", consts("dag", 3, 4, 1, 0, marks=2, rerun=True, multi=True), {}),
            ("cw3", consts("wf", 3, 4, 0, 0, marks=1), {})]
    scs = []
    for name, c, kw in fams:
        fam, run = engine.gen_family(name, c, **kw)
        log("  family %s: %d scenarios" % (name, len(fam)))
        scs += fam
    rnd.shuffle(scs)
    scs = scs[: 2500 if quick else 20000]
    scs += nest(scs, rnd, 0.15, True)
    wide = wide_fanout_scenarios(120 if quick else 600)     # the window is a few instructions wide: many repetitions
    scs += wide
    engine.decorate(scs, seed=vlib.SEED, state_variants=True, noid_frac=0.05)
    for sc in scs:
        if rnd.random() < 0.4:          # not every scenario stateful
            sc["state"] = bool(sc.get("rerun"))
            sc["post"] = sc["hmod"] = False
            sc.pop("smod", None)
            engine.sanitize(sc)
    callers = 4 if quick else 8
    try:
        lines, wall_go, _ = engine.replay_concurrent(scs, callers=callers, repo=repo)
    except engine.FrameworkCrash as c1:
        # "no data race occurs in framework code": the Go runtime killed the process (concurrent map access, nil map ...) with the
        # innermost eino frame in non-test code.  Reproduce once; then it is a violation, not a harness problem.
        log("  the test process died under concurrent use: %s; running the same scenarios again" % c1)
        try:
            engine.replay_concurrent(scs, callers=callers, repo=repo)
        except engine.FrameworkCrash as c2:
            verdict = vlib.Verdict(prop)
            verdict.violation("process-killed-under-concurrent-use:" + c2.frame.split("@")[0], {"what": c2.what, "frame": c2.frame, "callers": callers,
                                                                                                "first": str(c1), "output_tail": c2.output[-3000:]}, c2.what)
            code, n_new, n_known = verdict.finish()
            vlib.write_evidence(prop, tier, "model_checking", {"states": states, "transitions": trans, "traces_validated_against_impl": 1,
                                                                "samples": [{"case": {"id": "process-killed", "scenarios": len(scs), "callers": callers},
                                                                             "observations": [{"what": c2.what, "frame": c2.frame}]}],
                                                                "evaluations": 1, "exhaustive": False, "scenarios": len(scs), "callers": callers,
                                                                "rule": "process killed by the Go runtime in framework code under concurrent runs (twice)"},
                                assumptions=[], violations=n_new, wall_s=time.time() - t0)
            log("[C09] VIOLATION: process killed under concurrent use (%s), reproduced" % c2)
            return code
        raise Inconclusive("the test process died once under concurrent use (%s) but not when the scenarios were run again" % c1)
    log("  %d scenarios x %d concurrent runs on ONE compiled runnable each: %d observation lines, %.0fs" % (len(scs), callers, len(lines), wall_go))
    res = engine.validate(lines)
    idx = engine.index_cases(lines)
    bad = [b for b in res["bad"] if not str(b[2]).startswith("NOTE:")]
    if any(str(b[2]).startswith("NOTE:") for b in res["bad"]):
        raise Inconclusive("harness could not build some generated scenarios")
    verdict = vlib.Verdict(prop)
    by_id = {sc["id"]: sc for sc in scs}
    # reproduce each rejected scenario (all its runs) once more
    confirmed = []
    if bad:
        ids = sorted({cid.split("#")[0] for cid, _, _ in bad})[:200]
        lines2, _, _ = engine.replay_concurrent([by_id[i] for i in ids], callers=callers, repo=repo)
        res2 = engine.validate(lines2, nproc=4)
        again = {(b[0].split("#")[0], b[2]) for b in res2["bad"]}
        idx2 = engine.index_cases(lines2)
        for cid, _, reason in bad:
            if (cid.split("#")[0], reason) in again:
                k = next((x for x in idx2 if x.split("#")[0] == cid.split("#")[0] and (x, reason) in {(b[0], b[2]) for b in res2["bad"]}), None)
                confirmed.append((cid, reason, idx2[k][1] if k else idx[cid][1]))
            else:
                log("  note: rejection of %s (%s) did not reproduce: not counted" % (cid, reason))
    seen = set()
    for cid, reason, obs in confirmed:
        if (cid.split("#")[0], reason) in seen:
            continue
        seen.add((cid.split("#")[0], reason))
        verdict.violation("concurrent-run-differs:" + reason, {"scenario": by_id[cid.split("#")[0]], "callers": callers, "observations": obs}, reason)
    # data races: a smaller replay under the race detector
    nrace = 250 if quick else 2500
    race_set = wide[:40] + scs[:nrace]                      # the race detector sees conflicting accesses even when the window is missed
    _, wall_race, out_race = engine.replay_concurrent(race_set, callers=callers, race=True, repo=repo, timeout=2400)
    reps = engine.race_reports(out_race)
    for r in reps[:5]:
        verdict.violation("data-race:" + r["top_frame"], {"race_report": r}, r["file"])
    log("  race detector pass over %d scenarios x %d runs: %d reports in eino code, %.0fs" % (min(nrace, len(scs)), callers, len(reps), wall_race))
    agents = None
    try:
        import checks_agents
        agents = checks_agents.agent_isolation(tier, repo=repo)
    except ImportError:
        log("  note: agent-level isolation (lib/checks_agents.py) not available in this tree")
    if agents:
        states += agents.get("states", 0)
        trans += agents.get("transitions", 0)
        for cid, reason in agents.get("bad", [])[:5]:
            verdict.violation("agent-run-not-isolated:" + str(reason), {"agent_case": cid}, reason)
        for r in agents.get("race_reports", [])[:5]:
            verdict.violation("data-race:" + r["top_frame"], {"race_report": r}, r.get("file", ""))
        log("  agents: %d calls validated, %d rejected, %d race reports" % (agents.get("cases", 0), len(agents.get("bad", [])), len(agents.get("race_reports", []))))
    cbiso = None
    try:
        import checks_cb
        cbiso = checks_cb.callback_isolation(tier, repo=repo)
    except (ImportError, AttributeError):
        log("  note: callback isolation of overlapping runs (lib/checks_cb.py) not available in this tree")
    if cbiso:
        states += cbiso.get("states", 0)
        trans += cbiso.get("transitions", 0)
        for cid, reason in cbiso.get("bad", [])[:5]:
            verdict.violation("callbacks-of-overlapping-runs-not-isolated:" + str(reason), {"callback_case": cid}, reason)
        for r in cbiso.get("race_reports", [])[:5]:
            verdict.violation("data-race:" + r["top_frame"], {"race_report": r}, r.get("file", ""))
        log("  callbacks of overlapping runs: %d run-cases validated, %d rejected" % (cbiso.get("cases", 0), len(cbiso.get("bad", []))))
    code, n_new, n_known = verdict.finish()
    some = [idx[k] for k in vlib.sample(sorted(idx.keys()), 3)]
    nontriv = len({nontrivial_signature(c, o) for c, o in idx.values() if len(o) > 3})
    cov = {"states": states, "transitions": trans, "traces_validated_against_impl": len(idx) + (agents or {}).get("cases", 0) + (cbiso or {}).get("cases", 0),
           "samples": [{"case": c, "observations": [json.loads(x) for x in o[1:10]]} for c, o in some] + (agents or {}).get("samples", [])[:2],
           "evaluations": len(idx), "distinct_nontrivial": nontriv,
           "rule": "scenarios enumerated by TLC (EinoGen) with state / interrupt / nesting variants; each compiled once and driven by %d concurrent logical runs "
                   "(own initial term x<k>, own checkpoint id, own recorder carried in the context); every run's trace validated by TLC against RunObs; "
                   "distinct = distinct (shape, marks, observation-kind sequence) with at least 3 observations" % callers,
           "exhaustive": False, "callers": callers, "scenarios": len(scs), "race_pass_scenarios": min(nrace, len(scs)),
           "race_reports_in_eino_code": len(reps), "agent_level": {k: v for k, v in (agents or {}).items() if k in ("cases", "lines", "states")},
           "callback_level": {k: v for k, v in (cbiso or {}).items() if k in ("cases", "lines", "states")},
           "rejected_runs": len(bad), "confirmed": len(confirmed), "known_findings": n_known, "model_runs": model_runs}
    vlib.write_evidence(prop, tier, "model_checking", cov, assumptions=[
        "isolation is decided per run by the single-run rule (RunRule): a run that saw another run's value, state, option or checkpoint is rejected because its terms carry the tag of the run",
        "data-race freedom is not a trace property: the same concurrent replays are executed under the Go race detector and a report with a frame in eino's non-test code counts as a violation; this part of the verdict does not come from the TLA+ specification",
        "node bodies are the harness's term functions; callers per compiled object: %d" % callers], wall_s=time.time() - t0, violations=n_new)
    log("[C09] %s: %d runs validated, %d rejected (%d confirmed), %d race reports, %.0fs" % ("VIOLATION" if code else "ok", len(idx), len(bad), len(confirmed), len(reps), time.time() - t0))
    return code


def replay_file(prop):
    """bin/check <prop> --replay <file>: run the recorded scenario again on the current tree and judge it with the rule"""
    def run(path):
        d = json.load(open(path))
        case = d["case"]
        if "scenario" not in case:
            log("replay file holds no engine scenario (race report / agent case): re-run the check instead")
            return 2
        sc = case["scenario"]
        if case.get("callers"):
            lines, _, _ = engine.replay_concurrent([sc], callers=case["callers"])
        else:
            lines, _ = engine.replay([sc])
        res = engine.validate(lines, nproc=1)
        bad = [b for b in res["bad"] if prop in owners(b[2], prop) or d.get("detail") == b[2]]
        for ln in lines[:60]:
            log("  " + ln[:300])
        if bad:
            log("VIOLATION property=%s replay=%s" % (prop, path))
            log("  sig=%s (rejected again: %s)" % (d.get("sig"), sorted({b[2] for b in bad})))
            return 1
        log("[%s] replay accepted by the rule on the current tree" % prop)
        return 0
    return run


REPLAY = {p: replay_file(p) for p in ("C01", "C02", "C05", "C06", "C09", "C11", "C13")}
CHECKS = {"C09": c09, "C01": c01, "C02": c02, "C05": c05, "C06": c06, "C13": c13, "C11": c11}
