"""Build-family pipeline (C07, C20): TLC model EinoBuild -> call sequences -> real builder (Go harness) -> BuildObs validation."""
import json
import os
import random
import re
import sys
import time

sys.path.insert(0, os.path.dirname(os.path.abspath(__file__)))
import vlib
from vlib import log, Inconclusive

HARNESS_OVERLAY = {"compose/zz_verif_build_test.go": os.path.join(vlib.HARNESS, "compose", "zz_verif_build_test.go")}
AS_CODED = {"FixD5": False, "FixD15": False, "FixD7": False, "FixD30": False}
REPAIRED = {"FixD5": True, "FixD15": True, "FixD7": True, "FixD30": True}

# reasons of spec/BuildRule.tla by owner; everything else is a machinery problem (inconsistent trace), never a violation
OWN = {
    "C07": {"accepted-concrete-mismatch", "run-panic", "wrong-type-delivered-to-node", "wrong-type-delivered-to-branch", "wrong-type-result",
            "mismatch-not-reported", "typecheck-error-without-mismatch"},
    "C20": {"call-panicked", "error-not-sticky", "illformed-accepted", "modified-after-compile", "outcome-not-deterministic",
            "runnable-changed-after-compile", "recompile-after-refused-calls-differs", "refused-construction-accepted-on-retry", "compile-refused-for-options-changed-the-construction"},
}


def cfg_text(consts, invariants):
    def val(v):
        if isinstance(v, bool):
            return "TRUE" if v else "FALSE"
        if isinstance(v, str):
            return '"%s"' % v
        return str(v)
    lines = ["CONSTANTS"] + ["  %s = %s" % (k, val(v)) for k, v in consts.items()]
    lines += ["INIT Init", "NEXT Next"] + ["INVARIANT " + i for i in invariants] + ["CHECK_DEADLOCK FALSE"]
    return "\n".join(lines) + "\n"


def consts(fam, adds, post, fix, br=1, aftererr=1):
    c = {"Prop": "ALL", "Fam": fam, "MaxAdds": adds, "MaxPost": post, "MaxBr": br, "MaxAfterErr": aftererr}
    c.update(fix)
    return c


def _tlc(name, text, **kw):
    """vlib.tlc with one retry when the JVM died for a reason that is not about the spec (scratch files vanished, out of memory ...)."""
    run = vlib.tlc("EinoBuild", name, files={name: text}, heap="6g", **kw)
    if run.error == "other" and not run.timed_out and ("Exception" in run.stdout or "java.lang" in run.stdout) and "Parse Error" not in run.stdout:
        log("  note: TLC run %s failed for a reason outside the specification, retrying once" % name)
        run = vlib.tlc("EinoBuild", name, files={name: text}, heap="6g", **kw)
    return run


def model(fam, adds, post, fix, invariants, *, timeout=900, workers=4, br=1, aftererr=1):
    name = "mc_%s_%d_%d.cfg" % (fam, adds, post)
    return _tlc(name, cfg_text(consts(fam, adds, post, fix, br, aftererr), invariants), workers=workers, timeout=timeout)


def gen(fam, adds, post, *, simulate=None, depth=None, seed=None, timeout=900, workers=4, br=1, aftererr=1, fix=None, limit=None):
    """Enumerate (or sample with -simulate) the maximal call sequences of one family; predictions = the model of the code as it is
    now in /repo, i.e. with the repairs of D5 / D15 / D7 (which were applied there) switched on."""
    name = "gen_%s_%d_%d.cfg" % (fam, adds, post)
    run = _tlc(name, cfg_text(consts(fam, adds, post, fix or REPAIRED, br, aftererr), ["Emit"]),
               workers=workers, timeout=timeout, simulate=simulate, depth=depth, seed=seed)
    vlib.tlc_must_pass(run, "case generation %s" % fam)
    seen, out, by_ops = set(), [], {}
    for t in run.tagged("CASE"):
        if len(t) != 1 or t[0] in seen:
            continue
        seen.add(t[0])
        c = json.loads(t[0])
        # the model may end one construction in several ways (the order in which a Workflow's node map is walked): one case, all predictions
        key = json.dumps([c["fe"], c["gi"], c["go"], c["state"], c["ops"]], sort_keys=True)
        if key in by_ops:
            if c["pred"] not in by_ops[key]["pred_alt"]:
                by_ops[key]["pred_alt"].append(c["pred"])
            continue
        c["pred_alt"] = [c["pred"]]
        by_ops[key] = c
        c["fam"] = "%s/%d/%d%s" % (fam, adds, post, "/sim" if simulate else "")
        out.append(c)
    run.nondet = sum(1 for c in out if len(c["pred_alt"]) > 1)
    run.stdout, run.printed = run.stdout[-4000:], []      # the printed cases are large; keep only the parsed ones
    return out, run


def decorate(cases, *, seed, att=5, stream_frac=0.5):
    rnd = random.Random(seed)
    for i, c in enumerate(cases):
        c["id"] = "%s#%d" % (c["fam"], i)
        c["att"] = c.get("att_fam") or att
        c["stream"] = rnd.random() < stream_frac
    return cases


def replay(cases, *, repo=None, timeout=1200):
    d = vlib.mkscratch("verif-bld-")
    cin, out = os.path.join(d, "cases.ndjson"), os.path.join(d, "obs.ndjson")
    with open(cin, "w") as fh:
        for c in cases:
            fh.write(json.dumps({k: v for k, v in c.items() if k not in ("pred", "pred_alt", "att_fam", "fam")}, separators=(",", ":")) + "\n")
    code, output, wall = vlib.go_test("compose", HARNESS_OVERLAY, "^TestVerifBuild$", timeout=timeout, repo=repo, args=["-test.v"],
                                      env={"VERIF_CASES": cin, "VERIF_OUT": out})
    vlib.go_must_run(code, output, "builder replay")
    if "VERIF-BUILD cases=%d " % len(cases) not in output:
        raise Inconclusive("builder replay: harness did not report all cases\n" + output[-3000:])
    return vlib.read_lines(out), wall


def validate(prop, lines, *, nproc=4, timeout=1500):
    return vlib.validate_traces("BuildObs", "BuildObs_%s.cfg" % prop, lines, nproc=nproc, timeout=timeout, stack="128m")


def index_cases(lines):
    """case id -> list of its observation lines (first = the case line)"""
    idx, cur = {}, None
    for ln in lines:
        if ln.startswith('{"ev":"case"'):
            cur = json.loads(ln)["id"]
            idx[cur] = [ln]
        elif cur is not None:
            idx[cur].append(ln)
    return idx


def outcome(obs):
    """first attempt's outcome vector of a case's observation lines"""
    return json.loads(obs[1])["att"][0]


# ------------------------------------------------------------------------------------------------ signatures

def _incident(op, k):
    return (op["op"] == "edge" and k in (op["a"], op["b"])) or (op["op"] == "branch" and (op["a"] == k or k in op["ends"]))


def classify(case, reason, detail, obs):
    """The smallest description of the failing history."""
    ops = case["ops"]
    outs = outcome(obs) if len(obs) > 1 and obs[1].startswith('{"ev":"build"') else []
    ok = [j for j, o in enumerate(outs) if o == "ok"]
    passk = {ops[j]["k"] for j in ok if ops[j]["op"] == "pass"}
    if reason == "call-panicked":
        j = outs.index("P")
        if ops[j]["op"] == "compile":
            lonely = [k for k in passk if not any(_incident(ops[i], k) for i in ok if i < j)]
            if lonely:
                return "compile-panics-on-unconnected-passthrough"
        return "call-panicked(%s)" % ops[j]["op"]
    if reason in ("run-panic", "accepted-concrete-mismatch", "wrong-type-delivered-to-branch", "wrong-type-delivered-to-node"):
        # D5: a branch is added to a pass-through node that an earlier call connected to something of another declared type
        decl_out = {"start": case["gi"]}
        decl_in = {"end": case["go"]}
        for j in ok:
            if ops[j]["op"] == "node":
                decl_out[ops[j]["k"]], decl_in[ops[j]["k"]] = ops[j]["o"], ops[j]["i"]
        for j in ok:
            o = ops[j]
            if o["op"] != "branch" or o["a"] not in passk:
                continue
            # declared types adjoining, through calls made before j, the group of pass-through nodes that a belongs to
            before = [ops[i] for i in ok if i < j]
            group, grew = {o["a"]}, True
            while grew:
                grew = False
                for e in before:
                    pairs = [(e["a"], e["b"])] if e["op"] == "edge" else [(e["a"], x) for x in e["ends"]] if e["op"] == "branch" else []
                    for x, y in pairs:
                        for u, v in ((x, y), (y, x)):
                            if u in group and v in passk and v not in group:
                                group.add(v)
                                grew = True
            around = set()
            for e in before:
                if e["op"] == "edge":
                    if e["b"] in group:
                        around.add(decl_out.get(e["a"]))
                    if e["a"] in group:
                        around.add(decl_in.get(e["b"]))
                elif e["op"] == "branch":
                    if e["a"] in group:
                        around.add(e["t"])
                        around.update(decl_in.get(x) for x in e["ends"])
                    if any(x in group for x in e["ends"]):
                        around.add(decl_out.get(e["a"]))
            if any(t is not None and t != o["t"] for t in around):
                return "branch-retypes-inferred-passthrough"
        return reason
    if reason == "runnable-changed-after-compile":
        fm = any(ops[j]["op"] == "edge" and ops[j]["x"] == "fm" for j in ok)
        return "%s-after-compile-changes-first-runnable%s" % (detail or "call", "(field-mapping)" if fm else "")
    if reason == "outcome-not-deterministic" and case["fe"] == "wf":
        # D30: a pass-through node of a workflow next to an edge with field mappings (typed from whichever edge the node map yields first)
        declared = [o for o in ops if o["op"] in ("pass", "edge")]
        pk = {o["k"] for o in declared if o["op"] == "pass"}
        if any(o["op"] == "edge" and o["x"] in ("fm", "fm2", "dfm", "dfm2", "fmr") and (o["a"] in pk or o["b"] in pk) for o in declared):
            return "workflow-passthrough-typed-across-mapped-edge"
    if reason == "illformed-accepted":
        return "illformed-accepted(%s)" % detail
    return reason


def shape(case, outs):
    """what makes two cases the same for counting: the calls without the case id, and what they returned"""
    return json.dumps([case["fe"], case["gi"], case["go"], case["state"],
                       [[o[k] for k in ("op", "k", "a", "b", "i", "o", "e", "h", "t", "ends", "c", "m", "x")] for o in case["ops"]], outs])


def selftest(prop, lines):
    """the trace spec must reject a corrupted field and a dropped line (BUILDING.md, Sensitivity 3)"""
    idx = index_cases(lines)
    pick = None
    for cid, obs in idx.items():
        if len(obs) >= 4 and obs[2].startswith('{"ev":"run"') and obs[-1].startswith('{"ev":"end"'):
            pick = obs
            break
    if pick is None:
        return {"corrupted_field_rejected": None, "dropped_line_rejected": None}
    res = {}
    b = json.loads(pick[1])
    ops = json.loads(pick[0])["ops"]
    jc = next(j for j, o in enumerate(ops) if o["op"] == "compile" and b["att"][0][j] == "ok")
    for a in b["att"]:
        a[jc] = "E"          # the successful Compile now reads as failed: the run lines that follow contradict it
    corrupted = [pick[0], '{"ev":"build",' + json.dumps(b, separators=(",", ":"))[1:]] + pick[2:]
    dropped = pick[:2] + pick[3:]
    for name, tr in (("corrupted_field_rejected", corrupted), ("dropped_line_rejected", dropped)):
        r = validate(prop, tr, nproc=1, timeout=300)
        res[name] = len(r["bad"]) > 0
    return res
