"""Checks of the streams family: C08 (exactly once, in order, to every reader; close propagation) and C19 (no blocked
producer or goroutine after a finished streaming run).

C08 pipeline
  1. shapes      TLC (StreamsGen) enumerates the reader-tree shapes of the bound
  2. model       TLC checks exhaustively that the mechanism model (Streams.tla / StreamsDef section 2) satisfies the
                 property-level rule (StreamsDef section 3) on every tree of the tier, for every capacity / item sequence in the bound,
                 in every interleaving; no deadlock
  3. cases       (a) TLC (StreamsSeq) samples sequential operation histories in which every operation is non-blocking in the model;
                 (b) concurrent-driver cases (one goroutine per end, seeded jitter, random early closes) over every shape
  4. real runs   harness/schema/zz_verif_streams_test.go drives the real package schema, logs call/return lines with a global ticket
                 (once more under -race for (b))
  5. verdict     TLC validates every trace against StreamsObs (property-level, total) and StreamsLin (linearizability against the
                 mechanism model, silent internal steps).  Only a rejection there of a real trace, reproduced by re-running the same
                 case, or a reproduced race report with frames in eino/schema, is a VIOLATION.
"""
import concurrent.futures
import json
import os
import random
import time

import streams
import vlib
from vlib import log, Inconclusive

SEQ_CONSTS = {"Caps1": [1, 2], "MaxItems1": 3, "CapsN": [1, 2], "MaxItemsN": 2, "MaxItems3": 2, "ErrItems1": True, "ErrItemsN": True, "MaxLen": 14}


def has_forwarder(nodes):
    arr = {}

    def arrlike(i):
        n = nodes[i - 1]
        if n["k"] == "array":
            return True
        if n["k"] == "child":
            return arrlike(nodes[n["src"][0] - 1]["src"][0])
        if n["k"] == "merge":
            return all(arrlike(s) for s in n["src"])
        return False
    for n in nodes:
        if n["k"] == "merge":
            for s in n["src"]:
                if nodes[s - 1]["k"] in ("conv", "child") and not arrlike(s):
                    return True
    return False


def c08_tier(tier, rnd):
    if tier == "quick":
        return {"shape_bounds": (3, 2, 9), "big": (),
                "mc_consts": {"Caps1": [0, 1], "MaxItems1": 2, "CapsN": [0, 1], "MaxItemsN": 2, "MaxItems3": 1, "ErrItems1": True, "ErrItemsN": False},
                "mc_extra": 4, "mc_extra_nodes": 6, "mc_timeout": 150, "seq_shapes": 12, "seq_num": 250, "conc": 400, "race": 150,
                "repro": 20, "repro_cases": 8, "max_rej": 3, "mc_sim": None}
    return {"shape_bounds": (3, 2, 9), "big": (6,),
            "mc_consts": {"Caps1": [0, 1, 2], "MaxItems1": 3, "CapsN": [0, 1], "MaxItemsN": 2, "MaxItems3": 2, "ErrItems1": True, "ErrItemsN": False},
            "mc_extra": 10 ** 6, "mc_extra_nodes": 7, "mc_timeout": 1500, "seq_shapes": 80, "seq_num": 1500, "conc": 2500, "race": 800,
            "repro": 40, "repro_cases": 30, "max_rej": 12, "mc_sim": "num=3000"}


def trace_signature(lines):
    """a case's behaviour: its tree and the sequence of returned results"""
    return "|".join(ln for ln in lines if not ln.startswith('{"ev":"call"'))


def classify08(case, reason):
    return "%s/%s" % (reason, streams.kinds_of(case["tree"]))


def selftest08(lines, idx):
    """Sensitivity of the binding: corrupt one returned item / drop one return line of a recorded trace -> both specs must reject."""
    victim = None
    for cid, (c, ls) in idx.items():
        pos = [i for i, ln in enumerate(ls) if '"ev":"ret"' in ln and '"op":"recv"' in ln and '"res":"item"' in ln]
        if len(pos) >= 2 and c["mode"] == "conc":
            victim = (cid, ls, pos)
            break
    if victim is None:
        return {"ran": False}
    cid, ls, pos = victim
    e = json.loads(ls[pos[0]])
    e2 = dict(e, v=e["v"] + 1)
    corrupted = ls[:pos[0]] + [json.dumps(e2, separators=(",", ":"))] + ls[pos[0] + 1:]
    dropped = ls[:pos[0]] + ls[pos[0] + 1:]
    out = {"ran": True, "case": cid}
    for name, tr in (("corrupt_one_value", corrupted), ("drop_one_line", dropped)):
        ro = streams.validate_obs(tr, nproc=1)
        rl = streams.validate_lin(tr, nproc=1)
        out[name] = {"obs_rejects": bool(ro["bad"]), "lin_rejects": bool(rl["rejected"])}
        if not ro["bad"] or not rl["rejected"]:
            raise Inconclusive("self-test: %s of a recorded trace was not rejected (obs=%s lin=%s)" % (name, ro["bad"], rl["rejected"]))
    return out


def judge(lines, nproc=4, max_rej=12):
    ro = streams.validate_obs(lines, nproc=nproc)
    rl = streams.validate_lin(lines, nproc=nproc, max_rej=max_rej)
    bad = {}
    for cid, _ln, reason in ro["bad"]:
        bad.setdefault(cid, reason)
    for cid, _off, _line in rl["rejected"]:
        bad.setdefault(cid, "no-linearization")
    return bad, ro, rl


def c08(tier, repo=None):
    t0 = time.time()
    rnd = random.Random(vlib.SEED * 7919 + 8)
    P = c08_tier(tier, rnd)
    log("[C08] tier=%s seed=%d repo=%s" % (tier, vlib.SEED, repo or vlib.REPO))
    shapes, grun = streams.gen_shapes(*P["shape_bounds"])
    if P["big"]:
        big, _ = streams.gen_shapes(6, 1, 7, max_fan=2, arrays=False, big_merge=P["big"])
        shapes += [s for s in big if any(n["k"] == "merge" and len(n["src"]) == 6 for n in s["nodes"])]
    by_id = {s["id"]: s for s in shapes}
    log("  %d reader-tree shapes (TLC StreamsGen, %d states, %.0fs)" % (len(shapes), grun.distinct, grun.wall_s))
    one_op = [s for s in shapes if s["nops"] <= 1 and len(s["nodes"]) <= 6]
    two_op = [s for s in shapes if s["nops"] == 2 and len(s["nodes"]) <= P["mc_extra_nodes"]]
    rnd.shuffle(two_op)
    mc_shapes = one_op + two_op[:P["mc_extra"]]

    # model check in the background while the real runs are made
    ex = concurrent.futures.ThreadPoolExecutor(max_workers=2)
    fut_mc = ex.submit(streams.model_check, mc_shapes, P["mc_consts"], workers=4, timeout=P["mc_timeout"])

    seq_ok = [s for s in shapes if not has_forwarder(s["nodes"]) and any(n["k"] == "pipe" for n in s["nodes"])]
    rnd.shuffle(seq_ok)
    seqc, srun = streams.gen_seq_cases(seq_ok[:P["seq_shapes"]], SEQ_CONSTS, num=P["seq_num"], depth=16, seed=vlib.SEED, workers=2)
    log("  %d sequential histories sampled by TLC (StreamsSeq -simulate, %.0fs)" % (len(seqc), srun.wall_s))
    concc = streams.conc_cases(shapes, rnd, P["conc"])
    cases = seqc + concc
    case_by_id = {c["id"]: c for c in cases}
    lines, _, wall_go, _ = streams.run_schema(cases, repo=repo)
    log("  ran %d cases on the real package (%d trace lines, %.0fs)" % (len(cases), len(lines), wall_go))
    racec = streams.conc_cases(shapes, rnd, P["race"], prefix="r")
    rlines, races, wall_race, _ = streams.run_schema(racec, race=True, repo=repo)
    log("  ran %d concurrent cases under -race (%d trace lines, %d race reports, %.0fs)" % (len(racec), len(rlines), len(races), wall_race))
    for c in racec:
        case_by_id[c["id"]] = c

    mc = fut_mc.result()
    if mc.timed_out:
        raise Inconclusive("model check Streams.tla timed out after %.0fs (%d distinct states so far)" % (mc.wall_s, mc.distinct))
    vlib.tlc_must_pass(mc, "model check Streams.tla")
    log("  model: %d trees x capacities x item sequences, %d distinct states, %d transitions, depth %d, %.0fs: rule holds, no deadlock" % (
        len(mc_shapes), mc.distinct, mc.generated, mc.depth, mc.wall_s))
    states, trans = mc.distinct, mc.generated
    sim = None
    if P["mc_sim"]:
        rest = [s for s in shapes if s not in mc_shapes]
        simrun = streams.model_check(rest, P["mc_consts"], workers=4, timeout=600, simulate=P["mc_sim"], depth=60, seed=vlib.SEED)
        vlib.tlc_must_pass(simrun, "simulation of the remaining trees")
        sim = {"trees": len(rest), "states_generated": simrun.generated, "wall_s": round(simrun.wall_s, 1)}
        log("  model: remaining %d trees by simulation: %d states, %.0fs" % (len(rest), simrun.generated, simrun.wall_s))

    all_lines = lines + rlines
    bad, ro, rl = judge(all_lines, max_rej=P["max_rej"])
    idx = streams.index_cases(all_lines)
    log("  validated %d traces: StreamsObs %d states, StreamsLin %d states (%d JVM runs); rejected %d" % (
        len(idx), ro["states"], rl["states"], rl["jvm_runs"], len(bad)))
    st = selftest08(all_lines, idx)

    verdict = vlib.Verdict("C08")
    confirmed, unrepro = [], 0
    if bad:
        again = []
        for cid in list(bad)[:P["repro_cases"]]:
            c = case_by_id[cid]
            reps = 1 if c["mode"] == "seq" else P["repro"]
            for k in range(reps):
                again.append(dict(c, id="%s#%d" % (cid, k), seed=c["seed"] + k))
        lines2, _, _, _ = streams.run_schema(again, repo=repo)
        bad2, _, _ = judge(lines2, max_rej=12)
        idx2 = streams.index_cases(lines2)
        for cid in list(bad)[:P["repro_cases"]]:
            hits = [k for k in bad2 if k.split("#")[0] == cid and bad2[k] == bad[cid]]
            if hits:
                confirmed.append((cid, bad[cid], idx2[hits[0]][1]))
            else:
                unrepro += 1
                log("  note: rejection of %s (%s) did not reproduce in %d re-runs: not counted" % (cid, bad[cid], 1 if case_by_id[cid]["mode"] == "seq" else P["repro"]))
    for cid, reason, obs in confirmed:
        verdict.violation(classify08(case_by_id[cid], reason), {"case": case_by_id[cid], "trace": obs}, reason)
    race_lib = [r for r in races if r[1]]
    race_confirmed = 0
    if race_lib:
        _, races2, _, _ = streams.run_schema(racec, race=True, repo=repo)
        sigs2 = {r[0] for r in races2 if r[1]}
        for sig in sorted({r[0] for r in race_lib}):
            if sig in sigs2:
                race_confirmed += 1
                verdict.violation(sig, {"race_report": next(r[2] for r in race_lib if r[0] == sig)}, "race detector report with frames in eino/schema")
    if races and not race_lib:
        log("  note: %d race reports without a frame in eino/schema (harness only): not counted" % len(races))
    code, n_new, n_known = verdict.finish()
    if code == 0 and bad and not confirmed and unrepro:
        raise Inconclusive("%d rejected traces did not reproduce" % unrepro)

    sigs = set()
    for cid, (c, ls) in idx.items():
        if any('"res":"item"' in ln for ln in ls):
            sigs.add(trace_signature(ls))
    some = [idx[k] for k in vlib.sample(sorted(idx.keys()), 3)]
    cov = {"states": states, "transitions": trans, "traces_validated_against_impl": len(idx),
           "samples": [{"case": c, "trace": [json.loads(x) for x in o[1:14]]} for c, o in some],
           "evaluations": len(idx), "distinct_nontrivial": len(sigs),
           "rule": "reader-tree shapes = every shape TLC enumerates from spec/StreamsGen.tla (<=3 sources, <=2 operations of depth <=2 from "
                   "convert / convert-with-skip / Copy(2-3) / Merge(2-3)); model check = all one-operation shapes plus a VERIF_SEED-chosen "
                   "set of two-operation shapes (all of them up to the node bound in the thorough tier), every capacity and item sequence of "
                   "the bound, every interleaving; real runs = sequential histories sampled by TLC from spec/StreamsSeq.tla and concurrent "
                   "drivers over every shape, each trace validated by TLC against StreamsObs and StreamsLin; distinct = distinct (tree, "
                   "sequence of returned results); non-trivial = at least one item reached a reader",
           "exhaustive": False, "model": {"trees": len(mc_shapes), "constants": P["mc_consts"], "distinct": mc.distinct, "generated": mc.generated,
                                          "depth": mc.depth, "wall_s": round(mc.wall_s, 1), "invariants": streams.MC_INV + ["deadlock freedom"],
                                          "exhaustive_within_bounds": True, "simulated_rest": sim},
           "shapes": len(shapes), "sequential_cases": len(seqc), "concurrent_cases": len(concc), "race_cases": len(racec),
           "trace_lines": len(all_lines), "obs_states": ro["states"], "lin_states": rl["states"],
           "rejected_traces": len(bad), "confirmed": len(confirmed), "unreproduced": unrepro,
           "race_reports": len(races), "race_reports_in_schema": len(race_lib), "race_reports_confirmed": race_confirmed,
           "selftest": st, "known_findings": n_known}
    vlib.write_evidence("C08", tier, "model_checking", cov, assumptions=[
        "usage inside the documented contract: one goroutine per end, no Recv after Close, no second Close of a non-copy reader, "
        "every reader eventually reads to EOF or closes, every writer closes",
        "data-race freedom is observed with the Go race detector on the same drivers, not decided by the specification",
        "the writer-told bound is the code's grain: 0 late sends without forwarder goroutines, capacity + number of forwarders otherwise",
        "select fairness is not modelled (any ready source may be chosen); items are integers, the convert function is v -> v+100 with "
        "ErrNoValue on even values when skipping",
        "TLC, the Json community module and the Go harness's logging are trusted"],
        wall_s=time.time() - t0, violations=n_new)
    log("[C08] %s: model %d states; %d traces validated (%d distinct non-trivial), %d rejected, %d confirmed (%d known), %.0fs" % (
        "VIOLATION" if code else "ok", states, len(idx), len(sigs), len(bad), len(confirmed) + race_confirmed, n_known, time.time() - t0))
    return code


CHECKS = {"C08": c08}
