"""Checks of the streams family: C08 (exactly once, in order, to every reader; close propagation) and C19 (no blocked
producer or goroutine after a finished streaming run).

C08 pipeline
  1. shapes      TLC (StreamsGen) enumerates the reader-tree shapes of the bound
  2. model       TLC checks exhaustively that the mechanism model (Streams.tla / StreamsDef section 2) satisfies the
                 property-level rule (StreamsDef section 3) on every tree of the tier, for every capacity / item sequence in the bound,
                 in every interleaving; no deadlock
  3. cases       (a) TLC (StreamsSeq) samples sequential operation histories in which every operation is non-blocking in the model;
                 (b) concurrent-driver cases (one goroutine per end, seeded jitter, random early closes) over every shape
  4. real runs   harness/schema/zz_verif_streams_test.go drives the real package schema, logs call/return lines with a global ticket
                 (once more under -race for (b))
  5. verdict     TLC validates every trace against StreamsObs (property-level, total) and StreamsLin (linearizability against the
                 mechanism model, silent internal steps).  Only a rejection there of a real trace, reproduced by re-running the same
                 case, or a reproduced race report with frames in eino/schema, is a VIOLATION.
"""
import concurrent.futures
import json
import os
import random
import time

import engine
import streams
import vlib
from vlib import log, Inconclusive

SEQ_CONSTS = {"Caps1": [1, 2], "MaxItems1": 3, "CapsN": [1, 2], "MaxItemsN": 2, "MaxItems3": 1, "ErrItems1": True, "ErrItemsN": True, "MaxLen": 14}


def has_forwarder(nodes):
    arr = {}

    def arrlike(i):
        n = nodes[i - 1]
        if n["k"] == "array":
            return True
        if n["k"] == "child":
            return arrlike(nodes[n["src"][0] - 1]["src"][0])
        if n["k"] == "merge":
            return all(arrlike(s) for s in n["src"])
        return False
    for n in nodes:
        if n["k"] == "merge":
            for s in n["src"]:
                if nodes[s - 1]["k"] in ("conv", "child") and not arrlike(s):
                    return True
    return False


def c08_tier(tier, rnd):
    if tier == "quick":
        return {"shape_bounds": (3, 2, 9), "big": (),
                "mc_consts": {"Caps1": [0, 1], "MaxItems1": 2, "CapsN": [0, 1], "MaxItemsN": 2, "MaxItems3": 1, "ErrItems1": True, "ErrItemsN": False},
                "mc_extra": 10, "mc_extra_nodes": 6, "mc_timeout": 150, "seq_shapes": 12, "seq_num": 250, "conc": 400, "race": 150,
                "repro": 20, "repro_cases": 8, "max_rej": 3, "mc_sim": None}
    return {"shape_bounds": (3, 2, 9), "big": (6,),
            "mc_consts": {"Caps1": [0, 1, 2], "MaxItems1": 3, "CapsN": [0, 1], "MaxItemsN": 2, "MaxItems3": 1, "ErrItems1": True, "ErrItemsN": False},
            "mc_extra": 50, "mc_extra_nodes": 6, "mc_timeout": 1500, "seq_shapes": 30, "seq_num": 1500, "conc": 2500, "race": 800,
            "repro": 40, "repro_cases": 30, "max_rej": 12, "mc_sim": "num=3000"}


def trace_signature(lines):
    """a case's behaviour: its tree and the sequence of returned results"""
    return "|".join(ln for ln in lines if not ln.startswith('{"ev":"call"'))


def classify08(case, reason):
    return "%s/%s" % (reason, streams.kinds_of(case["tree"]))


def selftest08(lines, idx):
    """Sensitivity of the binding: corrupt one returned item / drop one return line of a recorded trace -> both specs must reject."""
    victim = None
    for cid, (c, ls) in idx.items():
        pos = [i for i, ln in enumerate(ls) if '"ev":"ret"' in ln and '"op":"recv"' in ln and '"res":"item"' in ln]
        if len(pos) >= 2 and c["mode"] == "conc":
            victim = (cid, ls, pos)
            break
    if victim is None:
        return {"ran": False}
    cid, ls, pos = victim
    e = json.loads(ls[pos[0]])
    e2 = dict(e, v=e["v"] + 1)
    corrupted = ls[:pos[0]] + [json.dumps(e2, separators=(",", ":"))] + ls[pos[0] + 1:]
    dropped = ls[:pos[-1]] + ls[pos[-1] + 1:]      # the last item return: its reader always makes another call afterwards
    out = {"ran": True, "case": cid}
    for name, tr in (("corrupt_one_value", corrupted), ("drop_one_line", dropped)):
        ro = streams.validate_obs(tr, nproc=1)
        rl = streams.validate_lin(tr, nproc=1)
        out[name] = {"obs_rejects": bool(ro["bad"]), "lin_rejects": bool(rl["rejected"])}
        if not ro["bad"] or not rl["rejected"]:
            raise Inconclusive("self-test: %s of a recorded trace was not rejected (obs=%s lin=%s)" % (name, ro["bad"], rl["rejected"]))
    return out


def judge(lines, nproc=4, max_rej=12):
    ro = streams.validate_obs(lines, nproc=nproc)
    rl = streams.validate_lin(lines, nproc=nproc, max_rej=max_rej)
    bad = {}
    for cid, _ln, reason in ro["bad"]:
        bad.setdefault(cid, reason)
    for cid, _off, _line in rl["rejected"]:
        bad.setdefault(cid, "no-linearization")
    return bad, ro, rl


def c08(tier, repo=None):
    t0 = time.time()
    rnd = random.Random(vlib.SEED * 7919 + 8)
    P = c08_tier(tier, rnd)
    log("[C08] tier=%s seed=%d repo=%s" % (tier, vlib.SEED, repo or vlib.REPO))
    shapes, grun = streams.gen_shapes(*P["shape_bounds"])
    if P["big"]:
        big, _ = streams.gen_shapes(6, 1, 7, max_fan=2, arrays=False, big_merge=P["big"])
        shapes += [s for s in big if any(n["k"] == "merge" and len(n["src"]) == 6 for n in s["nodes"])]
    by_id = {s["id"]: s for s in shapes}
    log("  %d reader-tree shapes (TLC StreamsGen, %d states, %.0fs)" % (len(shapes), grun.distinct, grun.wall_s))
    one_op = [s for s in shapes if s["nops"] <= 1 and len(s["nodes"]) <= 6]
    two_op = [s for s in shapes if s["nops"] == 2 and len(s["nodes"]) <= P["mc_extra_nodes"]]
    rnd.shuffle(two_op)
    mc_shapes = one_op + two_op[:P["mc_extra"]]
    # convert functions that panic inside a forwarder goroutine (merge source): model checked on two small trees
    for name, tree in streams.convert_panic_shapes():
        if name in ("panic1+pipe", "key(panic2)+array"):
            mc_shapes.append({"id": "cp-" + name, "nodes": tree, "desc": streams.shape_desc(tree), "nops": 3})
    # array-only copy-then-merge trees (depth 3, no writers: tiny state spaces) are model checked too
    for name, tree in streams.array_alias_shapes():
        if name in ("merge3-copy2", "spare2-copy2-plain", "merge3-copy3-plain"):
            nodes = [dict(n, items=[], cap=0) for n in tree]
            mc_shapes.append({"id": "aa-" + name, "nodes": nodes, "desc": streams.shape_desc(nodes), "nops": 4})

    # model check in the background while the real runs are made
    ex = concurrent.futures.ThreadPoolExecutor(max_workers=2)
    fut_mc = ex.submit(streams.model_check, mc_shapes, P["mc_consts"], workers=4, timeout=P["mc_timeout"])

    seq_ok = [s for s in shapes if not has_forwarder(s["nodes"]) and any(n["k"] == "pipe" for n in s["nodes"])]
    rnd.shuffle(seq_ok)
    seqc, srun = streams.gen_seq_cases(seq_ok[:P["seq_shapes"]], SEQ_CONSTS, num=P["seq_num"], depth=16, seed=vlib.SEED, workers=2, timeout=900)
    log("  %d sequential histories sampled by TLC (StreamsSeq -simulate, %.0fs)" % (len(seqc), srun.wall_s))
    concc = streams.conc_cases(shapes, rnd, P["conc"])
    directed = streams.merge_close_cases(15 if tier == "quick" else 40)
    directed += streams.prearray_cases(rnd, 3 if tier == "quick" else 8)
    directed += streams.remerge_cases(rnd, 12 if tier == "quick" else 30)
    directed += streams.convert_panic_cases(rnd, 4 if tier == "quick" else 12)
    directed += streams.array_alias_cases(rnd, 2 if tier == "quick" else 6)
    directed += streams.wide_merge_cases(rnd, 5 if tier == "quick" else 15) + streams.precopy_cases(rnd, 3 if tier == "quick" else 8)
    cases = seqc + directed + concc
    case_by_id = {c["id"]: c for c in cases}
    lines, _, wall_go, _ = streams.run_schema(cases, repo=repo)
    log("  ran %d cases on the real package (%d trace lines, %.0fs)" % (len(cases), len(lines), wall_go))
    racec = streams.conc_cases(shapes, rnd, P["race"], prefix="r")
    rlines, races, wall_race, _ = streams.run_schema(racec, race=True, repo=repo)
    log("  ran %d concurrent cases under -race (%d trace lines, %d race reports, %.0fs)" % (len(racec), len(rlines), len(races), wall_race))
    for c in racec:
        case_by_id[c["id"]] = c

    mc = fut_mc.result()
    if mc.timed_out:
        raise Inconclusive("model check Streams.tla timed out after %.0fs (%d distinct states so far)" % (mc.wall_s, mc.distinct))
    vlib.tlc_must_pass(mc, "model check Streams.tla")
    log("  model: %d trees x capacities x item sequences, %d distinct states, %d transitions, depth %d, %.0fs: rule holds, no deadlock" % (
        len(mc_shapes), mc.distinct, mc.generated, mc.depth, mc.wall_s))
    states, trans = mc.distinct, mc.generated
    sim = None
    if P["mc_sim"]:
        rest = [s for s in shapes if s not in mc_shapes]
        simrun = streams.model_check(rest, P["mc_consts"], workers=4, timeout=600, simulate=P["mc_sim"], depth=60, seed=vlib.SEED)
        vlib.tlc_must_pass(simrun, "simulation of the remaining trees")
        sim = {"trees": len(rest), "states_generated": simrun.generated, "wall_s": round(simrun.wall_s, 1)}
        log("  model: remaining %d trees by simulation: %d states, %.0fs" % (len(rest), simrun.generated, simrun.wall_s))

    all_lines = lines + rlines
    bad, ro, rl = judge(all_lines, max_rej=P["max_rej"])
    idx = streams.index_cases(all_lines)
    log("  validated %d traces: StreamsObs %d states, StreamsLin %d states (%d JVM runs); rejected %d" % (
        len(idx), ro["states"], rl["states"], rl["jvm_runs"], len(bad)))
    st = selftest08(all_lines, idx)

    verdict = vlib.Verdict("C08")
    confirmed, unrepro = [], 0
    if bad:
        cand = list(bad)[:P["repro_cases"]]
        left = list(cand)
        # re-run in two batches (3 repetitions, then the rest): a case that hangs costs the 3 s watchdog per repetition
        for batch, reps in enumerate((3, P["repro"] - 3)):
            again = []
            for cid in left:
                c = case_by_id[cid]
                for k in range(1 if c["mode"] == "seq" and not str(c["shape"]).startswith(("merge", "mergeclose")) else reps):
                    again.append(dict(c, id="%s#%d_%d" % (cid, batch, k), seed=c["seed"] + 100 * batch + k))
            if not again:
                break
            lines2, _, _, _ = streams.run_schema(again, repo=repo)
            bad2, _, _ = judge(lines2, max_rej=12)
            idx2 = streams.index_cases(lines2)
            for cid in list(left):
                hits = [k for k in bad2 if k.split("#")[0] == cid and bad2[k] == bad[cid]]
                if hits:
                    confirmed.append((cid, bad[cid], idx2[hits[0]][1]))
                    left.remove(cid)
        for cid in left:
            unrepro += 1
            log("  note: rejection of %s (%s) did not reproduce in %d re-runs: not counted" % (cid, bad[cid], P["repro"]))
    for cid, reason, obs in confirmed:
        verdict.violation(classify08(case_by_id[cid], reason), {"case": case_by_id[cid], "trace": obs}, reason)
    race_lib = [r for r in races if r[1]]
    race_confirmed = 0
    if race_lib:
        _, races2, _, _ = streams.run_schema(racec, race=True, repo=repo)
        sigs2 = {r[0] for r in races2 if r[1]}
        for sig in sorted({r[0] for r in race_lib}):
            if sig in sigs2:
                race_confirmed += 1
                verdict.violation(sig, {"race_report": next(r[2] for r in race_lib if r[0] == sig)}, "race detector report with frames in eino/schema")
    if races and not race_lib:
        log("  note: %d race reports without a frame in eino/schema (harness only): not counted" % len(races))
    code, n_new, n_known = verdict.finish()
    if code == 0 and bad and not confirmed and unrepro:
        # an observation that cannot be produced again is no evidence either way: reported, not counted (never a reason to fail the check)
        log("  NOTE: %d rejected traces did not reproduce: %s" % (unrepro, ", ".join("%s (%s)" % (k, v) for k, v in list(bad.items())[:5])))

    sigs = set()
    for cid, (c, ls) in idx.items():
        if any('"res":"item"' in ln for ln in ls):
            sigs.add(trace_signature(ls))
    some = [idx[k] for k in vlib.sample(sorted(idx.keys()), 3)]
    cov = {"states": states, "transitions": trans, "traces_validated_against_impl": len(idx),
           "samples": [{"case": c, "trace": [json.loads(x) for x in o[1:14]]} for c, o in some],
           "evaluations": len(idx), "distinct_nontrivial": len(sigs),
           "rule": "reader-tree shapes = every shape TLC enumerates from spec/StreamsGen.tla (<=3 sources, <=2 operations of depth <=2 from "
                   "convert / convert-with-skip / Copy(2-3) / Merge(2-3)); model check = all one-operation shapes plus a VERIF_SEED-chosen "
                   "set of two-operation shapes (all of them up to the node bound in the thorough tier), every capacity and item sequence of "
                   "the bound, every interleaving; real runs = sequential histories sampled by TLC from spec/StreamsSeq.tla and concurrent "
                   "drivers over every shape, each trace validated by TLC against StreamsObs and StreamsLin; distinct = distinct (tree, "
                   "sequence of returned results); non-trivial = at least one item reached a reader",
           "exhaustive": False, "model": {"trees": len(mc_shapes), "constants": P["mc_consts"], "distinct": mc.distinct, "generated": mc.generated,
                                          "depth": mc.depth, "wall_s": round(mc.wall_s, 1), "invariants": streams.MC_INV + ["deadlock freedom"],
                                          "exhaustive_within_bounds": True, "simulated_rest": sim},
           "shapes": len(shapes), "sequential_cases": len(seqc), "concurrent_cases": len(concc), "race_cases": len(racec),
           "trace_lines": len(all_lines), "obs_states": ro["states"], "lin_states": rl["states"],
           "rejected_traces": len(bad), "confirmed": len(confirmed), "unreproduced": unrepro,
           "race_reports": len(races), "race_reports_in_schema": len(race_lib), "race_reports_confirmed": race_confirmed,
           "selftest": st, "known_findings": n_known}
    vlib.write_evidence("C08", tier, "model_checking", cov, assumptions=[
        "usage inside the documented contract: one goroutine per end, no Recv after Close, no second Close of a non-copy reader, "
        "every reader eventually reads to EOF or closes, every writer closes",
        "data-race freedom is observed with the Go race detector on the same drivers, not decided by the specification",
        "the writer-told bound is the code's grain: 0 late sends without forwarder goroutines, capacity + number of forwarders otherwise",
        "select fairness is not modelled (any ready source may be chosen); items are integers, the convert function is v -> v+100 with "
        "ErrNoValue on even values when skipping",
        "TLC, the Json community module and the Go harness's logging are trusted"],
        wall_s=time.time() - t0, violations=n_new)
    log("[C08] %s: model %d states; %d traces validated (%d distinct non-trivial), %d rejected, %d confirmed (%d known), %.0fs" % (
        "VIOLATION" if code else "ok", states, len(idx), len(sigs), len(bad), len(confirmed) + race_confirmed, n_known, time.time() - t0))
    return code


# ------------------------------------------------------------------------------------------------ C19

REPRO19 = 10


def c19_tier(tier):
    if tier == "quick":
        return {"gens": [("dag", 3, 6), ("pregel", 3, 6), ("wf", 3, 6)], "per_mode": 400, "sim": [], "mc_shapes": 5, "mc_timeout": 170, "burst": 2000, "burst_race": 300}
    return {"gens": [("dag", 3, 6), ("pregel", 3, 6), ("wf", 3, 6), ("dag", 4, 7), ("pregel", 4, 7), ("wf", 4, 7)], "per_mode": 1300,
            "sim": [], "mc_shapes": 40, "mc_timeout": 1200, "burst": 20000, "burst_race": 2000}


def classify19(sc, reason, obs):
    parked = []
    blocked = []
    for ln in obs:
        if ln.startswith('{"ev":"dump"'):
            parked = json.loads(ln)["parked"]
        if ln.startswith('{"ev":"settled"'):
            blocked = json.loads(ln)["blocked"]
    frame = parked[0] if parked else "-"
    frame = frame.replace("compose.vflProduce", "producer").replace("compose.vflTransform", "producer")
    frame = frame.replace("(*", "").replace(")", "").replace("<", "@")          # file-name friendly: schema.stream.send@producer
    if sc["mode"] == "wf" and sc["branch"] and sc["branch"][0]["from"] in blocked:
        b = sc["branch"][0]
        kind = ("wf-branch-target-also-data-successor" if b.get("bdata") else
                "wf-branch-target-without-data-input" if b.get("bnone") else "wf-branch-routed-copy-without-data-successor")
        return "%s:%s/%s" % (reason, frame, kind)
    if any(n.get("cancel") for n in sc["nodes"]):
        return "%s:%s/%s+context-cancelled-in-last-step+stream-handler" % (reason, frame, sc["mode"])
    if any(n.get("pan") for n in sc["nodes"]):
        return "%s:%s/%s+convert-panic-in-fan-in" % (reason, frame, sc["mode"])
    if len(sc["branch"]) >= 2:
        picks = [b["ends"][b["pick"]] for b in sc["branch"]]
        same = len(set(picks)) < len(picks)
        return "%s:%s/%s+%dbranches%s" % (reason, frame, sc["mode"], len(picks), "-selecting-the-same-target" if same else "")
    return "%s:%s/%s%s" % (reason, frame, sc["mode"], "+branch" if sc["branch"] else "")


def plumbing_shapes(shapes):
    """reader trees of the kind the engine builds: fan-out copies feeding merges (fan-in) and key conversions"""
    out = []
    for s in shapes:
        ks = {n["k"] for n in s["nodes"]}
        if s["nops"] == 2 and "copy" in ks and (("merge" in ks) or ("conv" in ks)) and len(s["nodes"]) <= 7 and "array" not in ks:
            out.append(s)
    return out


def judge19(lines):
    res = vlib.validate_traces("StreamRunObs", "StreamRunObs.cfg", lines, nproc=4, timeout=600)
    notes = {}
    for r in res["runs"]:
        for t in r.tagged("NOTE"):
            notes[t[0]] = t[2]
    bad = {}
    for cid, _ln, reason in res["bad"]:
        bad.setdefault(cid, reason)
    return bad, notes, res


def c19(tier, repo=None):
    t0 = time.time()
    rnd = random.Random(vlib.SEED * 7919 + 19)
    P = c19_tier(tier)
    log("[C19] tier=%s seed=%d repo=%s" % (tier, vlib.SEED, repo or vlib.REPO))
    # stream-level half on the model: no deadlock, sources closed exactly once, forwarders gone at the end, on plumbing-shaped trees
    shapes, _ = streams.gen_shapes(2, 2, 7)
    pl = plumbing_shapes(shapes)
    rnd.shuffle(pl)
    pl = pl[:P["mc_shapes"]]
    ex = concurrent.futures.ThreadPoolExecutor(max_workers=1)
    consts = {"Caps1": [0, 1], "MaxItems1": 2, "CapsN": [0, 1], "MaxItemsN": 1, "MaxItems3": 1, "ErrItems1": False, "ErrItemsN": False}
    fut_mc = ex.submit(streams.model_check, pl, consts, workers=4, timeout=P["mc_timeout"])
    scs, gstats, gen_states, gen_trans = [], [], 0, 0
    for mode, n, me in P["gens"]:
        fam, run = streams.gen_run_shapes(mode, n, me)
        gen_states += run.distinct
        gen_trans += run.generated
        gstats.append({"mode": mode, "nodes": n, "max_edges": me, "scenario_shapes": len(fam), "tlc_distinct": run.distinct, "exhaustive_enumeration": True,
                       "replayed": min(len(fam), P["per_mode"])})
        rnd.shuffle(fam)
        # stratified slice: half of it scenarios with a stream branch (the rarer, richer family)
        def src_streams(x):
            return x["kinds"][x["nodes"].index(x["branch"][0]["from"])] != "V"
        one = [x for x in fam if len(x["branch"]) == 1]
        multi = [x for x in fam if len(x["branch"]) >= 2]           # several branches on one node (overlapping end sets)
        multi = ([x for x in multi if src_streams(x)] + [x for x in multi if not src_streams(x)])[:P["per_mode"] // 8]
        withb = multi + ([x for x in one if src_streams(x)] + [x for x in one if not src_streams(x)])[:P["per_mode"] // 2 - len(multi) // 2]
        scs += withb + [x for x in fam if not x["branch"]][:max(0, P["per_mode"] - len(withb))]
    for mode, n, me in P["sim"]:
        fam, run = streams.gen_run_shapes(mode, n, me, simulate="num=400", depth=14, seed=vlib.SEED)
        gen_states += run.generated
        gen_trans += run.generated
        gstats.append({"mode": mode, "nodes": n, "max_edges": me, "scenario_shapes": len(fam), "tlc_generated": run.generated,
                       "exhaustive_enumeration": False, "replayed": len(fam)})
        scs += fam
    # fan-in order comes from map iteration: scenarios with >= 2 streaming sources merged at END are run up to three times
    def fanin(x):
        ends = [a for a, b in x["edges"] if b == "end"]
        return sum(1 for n, k in zip(x["nodes"], x["kinds"]) if n in ends and k != "V") >= 2
    scs = scs + ([x for x in scs if fanin(x)] * 2)[:P["per_mode"]]
    cases = streams.decorate_run(scs, rnd, prefix="L")
    by_id = {c["id"]: c for c in cases}
    log("  %d streaming-run scenarios (TLC StreamRun, %d states): %s" % (len(cases), gen_states, ", ".join("%s/%d:%d" % (g["mode"], g["nodes"], g["scenario_shapes"]) for g in gstats)))
    lines, wall_go = streams.run_leak(cases, repo=repo)
    log("  ran %d scenarios on the real engine (%d lifecycle lines, %.0fs)" % (len(cases), len(lines), wall_go))
    bad, notes, res = judge19(lines)
    idx = streams.index_cases(lines)
    malformed = {k: v for k, v in bad.items() if v.startswith("malformed") or v == "no-case"}
    if malformed:
        k = sorted(malformed)[0]
        raise Inconclusive("lifecycle trace malformed (harness problem): %s %s\n%s" % (k, malformed[k], "\n".join(idx[k][1][:20])))
    failed = [k for k, v in notes.items() if v == "run-failed"]
    if len(failed) > len(cases) // 10:
        k = failed[0]
        raise Inconclusive("%d scenarios failed to run (outside the scope of the statement), e.g. %s\n%s" % (len(failed), k, "\n".join(idx[k][1][:12])))
    # self-test of the binding: corrupt one field / drop one line of a recorded trace
    st = selftest19(lines, idx)
    verdict = vlib.Verdict("C19")
    burst = burst19(P, repo, verdict)
    confirmed, unrepro = [], 0
    if bad:
        # order-dependent leaks (fan-in order comes from map iteration, select is random): re-run each rejected scenario REPRO19 times;
        # it counts if ANY re-run is rejected for the same reason -- a leak that happens in some runs is a leak
        cand = list(bad)[:4]
        left = list(cand)
        for batch, reps in enumerate((3, REPRO19 - 3)):
            if not left:
                break
            again = [dict(by_id[cid], id="%s#r%d_%d" % (cid, batch, k)) for cid in left for k in range(reps)]
            lines2, _ = streams.run_leak(again, repo=repo)
            bad2, _, _ = judge19(lines2)
            idx2 = streams.index_cases(lines2)
            for cid in list(left):
                hits = [k for k in bad2 if k.split("#")[0] == cid and bad2[k] == bad[cid]]
                if hits:
                    confirmed.append((cid, bad[cid], idx2[hits[0]][1]))
                    left.remove(cid)
        for cid in left:
            unrepro += 1
            log("  note: rejection of %s (%s) did not reproduce in %d re-runs: not counted" % (cid, bad[cid], REPRO19))
    for cid, reason, obs in confirmed:
        verdict.violation(classify19(by_id[cid], reason, obs), {"scenario": by_id[cid], "trace": obs}, reason)
    code, n_new, n_known = verdict.finish()
    timeouts = [k for k, v in notes.items() if v == "settle-timeout"]
    if code == 0 and (timeouts or (bad and not confirmed)):
        log("  NOTE: %d scenarios did not settle in time without a parked goroutine (machine load), %d rejections did not reproduce: not counted" % (len(timeouts), unrepro))
    mc = fut_mc.result()
    if mc.timed_out:
        raise Inconclusive("model check of the plumbing-shaped trees timed out")
    vlib.tlc_must_pass(mc, "model check Streams.tla on plumbing-shaped trees")
    log("  model: %d plumbing-shaped reader trees, %d distinct states, %.0fs: no deadlock, sources closed once, forwarders gone at the end" % (len(pl), mc.distinct, mc.wall_s))
    if code == 0 and burst["unreproduced"]:
        log("  NOTE: %d rejected barrier cases did not reproduce: not counted" % burst["unreproduced"])
    sigs = set()
    for cid, (c, ls) in idx.items():
        if any('"ev":"send"' in ln for ln in ls):
            sc = by_id[cid]
            sigs.add(json.dumps([sc["mode"], sc["edges"], sc["branch"], [(n["kind"], n["cap"], n["k"], n["okey"], n["err"]) for n in sc["nodes"]], sc["handler"], sc["read"]]))
    told = sum(1 for ln in lines if '"how":"told"' in ln)
    some = [idx[k] for k in vlib.sample(sorted(idx.keys()), 3)]
    cov = {"states": gen_states + mc.distinct + res["states"], "transitions": gen_trans + mc.generated + res["transitions"],
           "traces_validated_against_impl": len(idx),
           "samples": [{"scenario": by_id[c["id"]], "trace": [json.loads(x) for x in o[1:14]]} for c, o in some],
           "evaluations": len(idx), "distinct_nontrivial": len(sigs),
           "rule": "scenario shapes = every graph x node-kind assignment (x one stream branch) TLC enumerates from spec/StreamRun.tla in the bounds "
                   "under `families` (a VERIF_SEED-chosen slice of them is replayed; -simulate samples for 4 nodes in the thorough tier); capacities, "
                   "chunk counts, output keys, callback handlers (close / read one / drain), the caller's stopping point and an error chunk in "
                   "chains are spread by VERIF_SEED; each scenario runs on the real engine, its lifecycle trace and filtered goroutine dump are "
                   "validated by TLC against StreamRunObs; distinct = distinct scenario configuration; non-trivial = a streaming producer ran",
           "exhaustive": False, "families": gstats, "model": {"trees": len(pl), "distinct": mc.distinct, "generated": mc.generated, "wall_s": round(mc.wall_s, 1),
                                                               "invariants": streams.MC_INV + ["deadlock freedom"]},
           "lifecycle_lines": len(lines), "trace_validation_states": res["states"], "producers_told_closed": told,
           "runs_failed_outside_scope": len(failed), "rejected": len(bad), "confirmed": len(confirmed), "unreproduced": unrepro,
           "selftest": st, "known_findings": n_known, "barrier_closes": burst}
    vlib.write_evidence("C19", tier, "model_checking", cov, assumptions=[
        "goroutine-level quiescence is observed by a goroutine dump of the real process filtered to frames in eino/schema, eino/compose and the "
        "harness producers, taken after every producer signalled (bounded wait) and polled for at most ~0.4 s while goroutines unwind",
        "node bodies, branch conditions and handlers are the harness's: they close every stream they are given (the documented user contract)",
        "scenarios in which the run fails although no error chunk was injected are outside the statement and reported as notes",
        "the composition of the engine with the stream mechanism is not model checked as one system: the stream half is model checked on "
        "plumbing-shaped reader trees (Streams.tla), the engine half is bound by the real runs",
        "TLC, the Json community module and the Go harness are trusted"],
        wall_s=time.time() - t0, violations=n_new)
    log("[C19] %s: %d scenarios validated (%d distinct non-trivial), %d rejected, %d confirmed (%d known); barrier closes: %d rounds, "
        "%d cases rejected, %d race reports; %.0fs" % (
        "VIOLATION" if code else "ok", len(idx), len(sigs), len(bad), len(confirmed), n_known, burst["rounds"], burst["rejected_cases"],
        burst["race_reports"], time.time() - t0))
    return code


def burst19(P, repo, verdict):
    """Close propagation under truly concurrent closes (schema level, no graph): Copy(2..4) of a pipe, all copies closed by goroutines
    released together through a spin barrier, many rounds; then the writer must be told (source closed, producer released).
    (a) every round is judged by TLC (StreamsObs.ObsBurst); (b) the same driver once under the race detector: a report with a frame in
    eino's non-test code is a violation; (c) the seeded-defect model (read and write of the close counter as two steps) must fail in TLC."""
    out = {"rounds_per_width": P["burst"], "race_rounds_per_width": P["burst_race"], "unreproduced": 0}
    cases = streams.burst_cases(P["burst"])
    lines, _, wall, _ = streams.run_schema(cases, repo=repo)
    res = streams.validate_obs(lines, nproc=4)
    bad = {}
    for cid, _ln, reason in res["bad"]:
        bad.setdefault(cid, reason)
    out.update({"rounds": sum(1 for ln in lines if ln.startswith('{"ev":"burst"')), "obs_states": res["states"], "rejected_cases": len(bad),
                "told_false": sum(1 for ln in lines if ln.startswith('{"ev":"burst"') and '"res":"false"' in ln)})
    log("  barrier closes: %d rounds (Copy 2-4), %d cases rejected by StreamsObs, %.0fs" % (out["rounds"], len(bad), wall))
    if bad:
        by = {c["id"]: c for c in cases}
        again = [dict(by[cid], id=cid + "#r", rounds=3 * P["burst"]) for cid in bad]
        lines2, _, _, _ = streams.run_schema(again, repo=repo)
        res2 = streams.validate_obs(lines2, nproc=4)
        bad2 = {cid: reason for cid, _ln, reason in res2["bad"]}
        for cid, reason in sorted(bad.items()):
            if bad2.get(cid + "#r") == reason:
                verdict.violation("%s/concurrent-close-of-%s" % (reason, cid.split("-")[-1]), {"case": by[cid]}, reason)
            else:
                out["unreproduced"] += 1
                log("  note: rejection of %s (%s) did not reproduce: not counted" % (cid, reason))
    rcases = streams.burst_cases(P["burst_race"], prefix="br")
    _, _, wall_r, output = streams.run_schema(rcases, race=True, repo=repo)
    reps = engine.race_reports(output)
    out["race_reports"] = len(reps)
    log("  barrier closes under -race: %d rounds per width, %d reports with a frame in eino non-test code, %.0fs" % (P["burst_race"], len(reps), wall_r))
    if reps:
        _, _, _, output2 = streams.run_schema(rcases, race=True, repo=repo)
        again = {r["top_frame"] for r in engine.race_reports(output2)}
        for fr in sorted({r["top_frame"] for r in reps}):
            if fr in again:
                verdict.violation("data-race:" + fr, {"race_report": next(r["text"] for r in reps if r["top_frame"] == fr)},
                                  "race detector report with a frame in eino non-test code during concurrent closes of stream copies")
            else:
                out["unreproduced"] += 1
    # must-fail configuration of the model: the lost update is a behaviour of Streams.tla when the counter is read and written in two steps
    shapes, _ = streams.gen_shapes(1, 1, 6)
    cp = [s for s in shapes if s["desc"].startswith("copy") or "copy2(p1)" in s["desc"] or "copy3(p1)" in s["desc"]]
    cp = [s for s in cp if "p1" in s["desc"]][:2]
    consts = {"Caps1": [1], "MaxItems1": 1, "CapsN": [1], "MaxItemsN": 1, "MaxItems3": 1, "ErrItems1": False, "ErrItemsN": False, "SplitCount": True}
    run = streams.model_check(cp, consts, workers=2, timeout=120)
    out["seeded_defect_model"] = {"trees": [s["desc"] for s in cp], "tlc_error": run.error, "distinct": run.distinct}
    if run.timed_out or run.error is None or not (run.error.startswith("invariant:") or run.error == "deadlock"):
        raise Inconclusive("the seeded-defect model (SplitCount = TRUE) was expected to fail in TLC, got %s" % run.error)
    log("  model with the close counter split into read and write (must fail): TLC reports %s after %d states" % (run.error, run.distinct))
    return out


def selftest19(lines, idx):
    victim = None
    for cid, (c, ls) in idx.items():
        if any('"ev":"fin"' in ln for ln in ls) and ls[-1] == '{"ev":"dump","parked":[]}' and '"timeout":false' in ls[-2] and '"err":""' in "".join(ls):
            victim = ls
            break
    if victim is None:
        return {"ran": False}
    corrupted = victim[:-1] + ['{"ev":"dump","parked":["schema.(*stream).send<compose.vflProduce"]}']
    k = max(i for i, ln in enumerate(victim) if '"ev":"fin"' in ln)
    dropped = victim[:k] + victim[k + 1:]
    out = {"ran": True}
    for name, tr in (("corrupt_one_field", corrupted), ("drop_one_line", dropped)):
        r = vlib.validate_traces("StreamRunObs", "StreamRunObs.cfg", tr, nproc=1)
        out[name] = {"rejected": bool(r["bad"]), "reason": r["bad"][0][2] if r["bad"] else ""}
        if not r["bad"]:
            raise Inconclusive("self-test: %s of a recorded lifecycle trace was not rejected" % name)
    return out


def replay08(path):
    d = json.load(open(path))
    c = d["case"].get("case")
    if c is None:
        raise Inconclusive("this replay file holds a race report, re-run bin/check C08 to reproduce it")
    reps = 1 if c["mode"] == "seq" else 40
    again = [dict(c, id="%s#%d" % (c["id"], k), seed=c["seed"] + k) for k in range(reps)]
    lines, _, _, _ = streams.run_schema(again)
    bad, _, _ = judge(lines)
    for cid, reason in sorted(bad.items()):
        log("  %s rejected: %s" % (cid, reason))
    if any(r == d["detail"] for r in bad.values()):
        log("VIOLATION property=C08 replay=%s" % path)
        return 1
    log("[C08] replay: not reproduced in %d runs" % reps)
    return 0


def replay19(path):
    d = json.load(open(path))
    sc = d["case"]["scenario"]
    lines, _ = streams.run_leak([sc])
    bad, notes, _ = judge19(lines)
    for ln in lines[1:]:
        log("  " + ln)
    if bad:
        log("VIOLATION property=C19 replay=%s" % path)
        return 1
    log("[C19] replay: not reproduced")
    return 0


CHECKS = {"C08": c08, "C19": c19}
REPLAY = {"C08": replay08, "C19": replay19}
