"""Checks of the build family: C07 (compile-time type soundness), C20 (ill-formed graphs rejected; compiled graphs immutable).

Pipeline of both checks:
  1. model level   TLC checks EinoBuild (the builder as coded in graph.go, with the proposed repairs switched on) against the
                   property-level definitions of BuildRule.tla, exhaustively in a tight universe; the same model with the repairs
                   switched off is expected to violate them (D5, D15, D7) -- recorded, never a verdict
  2. generation    TLC enumerates / samples the maximal call sequences of the families (with the model's predicted outcomes)
  3. replay        the Go harness performs every sequence on the real builder (5 fresh attempts), runs accepted graphs with a value
                   of every dynamic type, re-probes the first runnable after every later call
  4. verdict       TLC validates the observations against BuildObs (= BuildRule applied to the recorded lines); only a rejection
                   there, of an observation of REAL code, reproduced by a second replay, is a VIOLATION.  A difference between
                   the model's prediction and the real outcome that the rule accepts is DRIFT (printed, exit code unaffected).
"""
import json
import os
import random
import time

import build
import vlib
from vlib import log, Inconclusive

OTHER = {"C07": "C20", "C20": "C07"}


def _tlc_phase(prop, models, probes, families, timeout):
    """All TLC runs of the model level and of the generation, at most 4 JVMs at a time with one worker each."""
    import concurrent.futures
    jobs = []
    for mdl in models:
        fam, adds, post, invs = mdl[:4]
        br = mdl[4] if len(mdl) > 4 else 1
        jobs.append(("model", (fam, adds, post, invs), lambda fam=fam, adds=adds, post=post, invs=invs, br=br:
                     build.model(fam, adds, post, build.REPAIRED, invs, timeout=timeout, workers=1, br=br)))
    for label, fam, adds, post, fix, inv in probes:
        jobs.append(("probe", (label, fam, adds, post, inv), lambda fam=fam, adds=adds, post=post, fix=fix, inv=inv:
                     build.model(fam, adds, post, fix, [inv], timeout=timeout, workers=1)))
    for f in families:
        kw = dict(f)
        fam, adds, post = kw.pop("fam"), kw.pop("adds"), kw.pop("post")
        kw.pop("limit", None)
        kw.pop("att", None)
        if kw.get("simulate"):
            kw["seed"] = vlib.SEED
        kw.setdefault("timeout", timeout)
        kw.setdefault("workers", 1)
        jobs.append(("gen", f, lambda fam=fam, adds=adds, post=post, kw=kw: build.gen(fam, adds, post, **kw)))
    with concurrent.futures.ThreadPoolExecutor(max_workers=2 if any(f.get("workers", 1) > 1 for f in families) else 4) as ex:
        futs = [ex.submit(j[2]) for j in jobs]
        results = [f.result() for f in futs]
    states = trans = 0
    runs, gens = [], []
    for (kind, info, _), r in zip(jobs, results):
        if kind == "model":
            fam, adds, post, invs = info
            vlib.tlc_must_pass(r, "model check EinoBuild(%s,%d,%d) with the repairs on" % (fam, adds, post))
            states += r.distinct
            trans += r.generated
            runs.append({"family": fam, "max_adds": adds, "max_post": post, "variant": "repaired", "invariants": invs, "distinct": r.distinct,
                         "generated": r.generated, "depth": r.depth, "wall_s": round(r.wall_s, 1), "result": "hold"})
            log("  model %s/%d/%d repaired: %s hold, %d distinct states, %d generated, depth %d, %.0fs" % (
                fam, adds, post, "+".join(invs), r.distinct, r.generated, r.depth, r.wall_s))
        elif kind == "probe":
            label, fam, adds, post, inv = info
            if r.timed_out or (r.error is not None and r.error != "invariant:" + inv):
                raise Inconclusive("model probe %s: TLC reported %s\n%s" % (label, r.error, r.stdout[-2000:]))
            res = "violated" if r.error else "hold"
            runs.append({"family": fam, "max_adds": adds, "max_post": post, "variant": "before the repair (%s)" % label, "invariants": [inv],
                         "distinct": r.distinct, "generated": r.generated, "wall_s": round(r.wall_s, 1), "result": res})
            log("  model %s/%d/%d before the repair: %s %s (%s), %.0fs" % (fam, adds, post, inv, res.upper(), label, r.wall_s))
        else:
            gens.append((info, r))
    return states, trans, runs, gens


def run_build_check(prop, tier, *, models, probes, families, limit, nontrivial, assumptions, repo=None):
    t0 = time.time()
    rnd = random.Random(vlib.SEED * 7919 + 17)
    log("[%s] tier=%s seed=%d repo=%s" % (prop, tier, vlib.SEED, repo or vlib.REPO))
    states, trans, model_runs, gens = _tlc_phase(prop, models, probes, families, timeout=1500 if tier == "thorough" else 420)
    cases, gen_stats = [], []
    for f, (cs, run) in gens:
        fam, adds, post, lim, sim = f["fam"], f["adds"], f["post"], f.get("limit"), f.get("simulate")
        total = len(cs)
        if f.get("att"):
            for c in cs:
                c["att_fam"] = f["att"]
        if getattr(run, "nondet", 0):
            log("  note: model %s/%d/%d: %d constructions end differently depending on the order in which the node map is walked" % (fam, adds, post, run.nondet))
        if lim and len(cs) > lim:
            rnd.shuffle(cs)
            cs = cs[:lim]
        gen_stats.append({"family": fam, "max_adds": adds, "max_post": post, "mode": "simulate" if sim else "exhaustive",
                          "sequences": total, "replayed": len(cs), "tlc_distinct": run.distinct, "wall_s": round(run.wall_s, 1)})
        log("  family %s/%d/%d%s: %d sequences (%d replayed), TLC %d distinct states, %.0fs" % (
            fam, adds, post, " (simulated)" if sim else "", total, len(cs), run.distinct, run.wall_s))
        cases += cs
    exhaustive = all(g["mode"] == "exhaustive" and g["sequences"] == g["replayed"] for g in gen_stats)
    if limit and len(cases) > limit:
        rnd.shuffle(cases)
        cases = cases[:limit]
        exhaustive = False
    build.decorate(cases, seed=vlib.SEED, att=5)
    by_id = {c["id"]: c for c in cases}
    lines, wall_go = build.replay(cases, repo=repo)
    log("  replayed %d sequences on the real builder: %d observation lines, %.0fs" % (len(cases), len(lines), wall_go))
    res = build.validate(prop, lines)
    idx = build.index_cases(lines)
    if len(idx) != len(cases):
        raise Inconclusive("observation trace has %d cases, %d were sent" % (len(idx), len(cases)))
    mine, foreign = [], {}
    for b in res["bad"]:
        cid, reason, detail = b[0], b[2], (b[3] if len(b) > 3 else "")
        if reason in build.OWN[prop]:
            mine.append((cid, reason, detail))
        elif reason in build.OWN[OTHER[prop]]:
            foreign[reason] = foreign.get(reason, 0) + 1
        else:
            raise Inconclusive("observation trace of case %s is inconsistent (%s %s): harness or trace problem\n%s" % (
                cid, reason, detail, "\n".join(idx.get(cid, [])[:6])))
    for reason, k in sorted(foreign.items()):
        log("  note: %d cases rejected for '%s' (clause of %s; reported by that property's check)" % (k, reason, OTHER[prop]))
    # drift: model prediction (the builder as it is in /repo: repairs of D5, D15, D7 applied) vs what the real builder returned
    drift = []
    for cid, obs in idx.items():
        real, pred = build.outcome(obs), by_id[cid]["pred"]
        real = [x for x in real if x != "-"]
        if real not in by_id[cid].get("pred_alt", [pred]):
            drift.append({"id": cid, "real": real, "model": pred, "ops": [[o["op"], o["k"] or o["a"], o["b"] or o["t"], o["ends"]] for o in by_id[cid]["ops"]]})
    drift_kinds = {}
    for d in drift:
        k = next((i for i in range(min(len(d["real"]), len(d["model"]))) if d["real"][i] != d["model"][i]), min(len(d["real"]), len(d["model"])))
        op = by_id[d["id"]]["ops"][k]["op"] if k < len(by_id[d["id"]]["ops"]) else "?"
        key = "%s: model %s / real %s" % (op, d["model"][k] if k < len(d["model"]) else "-", d["real"][k] if k < len(d["real"]) else "-")
        drift_kinds[key] = drift_kinds.get(key, 0) + 1
    for d in drift[:3]:
        log("DRIFT: %s real=%s model=%s %s" % (d["id"], d["real"], d["model"], json.dumps(d["ops"])))
    if drift:
        log("  drift: %d of %d sequences end differently than the model predicts (not a verdict): %s" % (len(drift), len(cases), json.dumps(drift_kinds)))
    # when the tree differs from the model: does it match the model of the code before the repairs (FixD5 = FixD15 = FixD7 = FALSE)?
    drift_repaired = None
    if drift:
        import concurrent.futures
        exh = [f for f in families if not f.get("simulate")]

        def regen(f):
            kw = {k: v for k, v in f.items() if k not in ("fam", "adds", "post", "limit", "workers", "att")}
            return build.gen(f["fam"], f["adds"], f["post"], fix=build.AS_CODED, workers=1, **kw)[0]
        with concurrent.futures.ThreadPoolExecutor(max_workers=4) as ex:
            regs = list(ex.map(regen, exh))

        def key(c):
            return json.dumps([c["fe"], c["gi"], c["go"], c["state"], c["ops"]], sort_keys=True)
        pred2 = {key(c): c["pred"] for cs2 in regs for c in cs2}
        compared = [d for d in drift if key(by_id[d["id"]]) in pred2]
        drift_repaired = sum(1 for d in compared if pred2[key(by_id[d["id"]])] != d["real"])
        log("  drift: of the %d drifting sequences of the exhaustive families, %d also differ from the model of the code before the repairs D5 / D15 / D7" % (
            len(compared), drift_repaired))
    # reproduce: a rejection counts only if a second replay of the same sequence is rejected for the same reason
    confirmed = []
    if mine:
        again = [by_id[cid] for cid, _, _ in mine[:300]]
        lines2, _ = build.replay(again, repo=repo)
        res2 = build.validate(prop, lines2, nproc=2)
        bad2 = {(b[0], b[2]) for b in res2["bad"]}
        idx2 = build.index_cases(lines2)
        for cid, reason, detail in mine[:300]:
            if (cid, reason) in bad2:
                confirmed.append((cid, reason, detail, idx2[cid]))
            else:
                log("  note: rejection of %s (%s) did not reproduce on a second replay: not counted" % (cid, reason))
    verdict = vlib.Verdict(prop)
    sig_count = {}
    tagged = []
    for cid, reason, detail, obs in confirmed:
        sig = build.classify(by_id[cid], reason, detail, obs)
        sig_count[sig] = sig_count.get(sig, 0) + 1
        tagged.append((sig_count[sig], len(by_id[cid]["ops"]), sig, cid, reason, detail, obs))
    for _, _, sig, cid, reason, detail, obs in sorted(tagged, key=lambda t: t[:4]):     # every signature gets a replay artefact, shortest first
        verdict.violation(sig, {"case": by_id[cid], "observations": [json.loads(x) for x in obs]}, "%s %s" % (reason, detail))
    for sig, k in sorted(sig_count.items()):
        log("  rejected: %d cases with signature %s" % (k, sig))
    code, n_new, n_known = verdict.finish()
    st = build.selftest(prop, lines)
    if st["corrupted_field_rejected"] is False or st["dropped_line_rejected"] is False:
        raise Inconclusive("trace spec self-test failed: %s" % st)
    shapes, nontriv = set(), 0
    for cid, obs in idx.items():
        if nontrivial(by_id[cid], obs):
            s = build.shape(by_id[cid], obs[1:])
            if s not in shapes:
                shapes.add(s)
                nontriv += 1
    some = vlib.sample(sorted(idx.keys()), 3)
    cov = {"states": states, "transitions": trans, "traces_validated_against_impl": len(idx),
           "samples": [{"calls": [{k: v for k, v in o.items() if v not in ("", [])} for o in by_id[k]["ops"]],
                        "graph_types": [by_id[k]["gi"], by_id[k]["go"]], "observations": [json.loads(x) for x in idx[k][1:8]]} for k in some],
           "evaluations": len(idx), "distinct_nontrivial": nontriv,
           "rule": "sequences = every maximal call sequence TLC enumerates (or samples with -simulate, seeded by VERIF_SEED) from spec/EinoBuild.tla "
                   "inside the family bounds below; each is performed on the real builder 5 times, accepted graphs are run with every dynamic "
                   "input type, and the observation trace is validated by TLC against spec/BuildObs.tla; distinct = distinct (calls, "
                   "observations); non-trivial = " + nontrivial.__doc__,
           "exhaustive": exhaustive, "model_runs": model_runs, "families": gen_stats, "observation_lines": len(lines),
           "trace_validation_states": res["states"], "rejected_cases": len(res["bad"]), "rejected_for_this_property": len(mine),
           "confirmed": len(confirmed), "signatures": sig_count, "known_findings": n_known, "drift": len(drift), "drift_vs_pre_repair_model": drift_repaired, "drift_first_difference": drift_kinds, "drift_samples": drift[:3],
           "selftest": st}
    vlib.write_evidence(prop, tier, "model_checking", cov, assumptions=list(assumptions) + [
        "node bodies and branch conditions are the harness's own functions: they log the dynamic type they receive, emit a value of a fixed "
        "dynamic type, always pick the same branch end, never fail; values are never nil",
        "TLC, the Json community module and the Go harness are trusted; run-time failures are classified by eino's message prefixes "
        "('runtime type check fail', 'panic error:'); build outcomes only by ok / error identity / ErrGraphCompiled / panic"],
        wall_s=time.time() - t0, violations=n_new)
    log("[%s] %s: %d sequences validated, %d distinct non-trivial, %d rejected for this property (%d known), drift %d, %.0fs" % (
        prop, "VIOLATION" if code else "ok", len(idx), nontriv, len(mine), n_known, len(drift), time.time() - t0))
    return code


# ------------------------------------------------------------------------------------------------ the checks

def _accepted_and_ran(case, obs):
    """the graph was accepted and a run executed a typed node or a branch condition, or ended in a run-time type-check error"""
    for ln in obs[2:]:
        if ln.startswith('{"ev":"run"'):
            e = json.loads(ln)
            if e["ex"] or e["br"] or e["res"] == "typecheck":
                return True
    return False


def _violation_or_post(case, obs):
    """a call was refused (error or panic) or calls were made after a successful Compile"""
    outs = build.outcome(obs)
    if any(o != "ok" for o in outs):
        return True
    ops = case["ops"]
    jc = next((j for j, o in enumerate(ops) if o["op"] == "compile" and outs[j] == "ok"), None)
    return jc is not None and jc < len(ops) - 1


def c07(tier, repo=None):
    probes = [("D5: addBranch re-types an inferred pass-through", "flow", 2, 0, dict(build.REPAIRED, FixD5=False), "Sound")]
    if tier == "quick":
        models = [("flow", 2, 0, ["AllOutcome", "Sound", "FrozenMaps"]), ("flown", 2, 0, ["AllOutcome", "Sound", "FrozenMaps"]),
                  ("flowio", 3, 0, ["AllOutcome", "Sound", "FrozenMaps"]), ("brshare", 3, 0, ["AllOutcome", "Sound", "FrozenMaps"], 3),
                  ("sub", 3, 0, ["AllOutcome", "Sound", "FrozenMaps"])]
        fams = [dict(fam="flow", adds=2, post=0), dict(fam="flowend", adds=2, post=0), dict(fam="flown", adds=2, post=0), dict(fam="flowio", adds=3, post=0),
                dict(fam="brshare", adds=3, post=0, br=3), dict(fam="sub", adds=3, post=0),
                dict(fam="flow", adds=4, post=0, br=2, simulate="num=1200", depth=60, limit=3000),
                dict(fam="flow2", adds=5, post=0, br=2, simulate="num=300", depth=70, limit=3000)]
        limit = 70000
    else:
        models = [("flow", 2, 0, ["AllOutcome", "Sound", "FrozenMaps"]), ("flowend", 2, 0, ["AllOutcome", "Sound", "FrozenMaps"]),
                  ("flown", 2, 0, ["AllOutcome", "Sound", "FrozenMaps"]), ("flowio", 3, 0, ["AllOutcome", "Sound", "FrozenMaps"]),
                  ("brshare", 3, 0, ["AllOutcome", "Sound", "FrozenMaps"], 3), ("sub", 4, 0, ["AllOutcome", "Sound", "FrozenMaps"])]
        fams = [dict(fam="flow", adds=2, post=0), dict(fam="flowend", adds=2, post=0), dict(fam="flown", adds=2, post=0), dict(fam="flowio", adds=3, post=0),
                dict(fam="brshare", adds=3, post=0, br=3), dict(fam="sub", adds=4, post=0), dict(fam="brshare", adds=5, post=0, br=5, simulate="num=6000", depth=80),
                dict(fam="flowio", adds=5, post=0, simulate="num=8000", depth=80), dict(fam="flown", adds=4, post=0, br=2, simulate="num=8000", depth=70),
                dict(fam="flow", adds=3, post=0, simulate="num=20000", depth=60),
                dict(fam="flowend", adds=4, post=0, br=2, simulate="num=12000", depth=70),
                dict(fam="flow", adds=5, post=0, br=2, simulate="num=20000", depth=80),
                dict(fam="flow2", adds=6, post=0, br=2, simulate="num=4000", depth=90)]
        limit = 300000
    return run_build_check("C07", tier, models=models, probes=probes, families=fams, limit=limit, nontrivial=_accepted_and_ran, repo=repo,
                           assumptions=[
                               "a group of connected pass-through nodes carries a static obligation only when every declared type adjoining it is "
                               "concrete (otherwise the builder may type it by the interface and check at run time)",
                               "'error exactly when not assignable': a result is rejected only in Invoke mode (stream conversions are lazy) and a "
                               "type-check error is accepted whenever some emitted value is not assignable to a type its pass-through group may have been given"])


def c20(tier, repo=None):
    probes = [("D15: Compile dereferences the nil helper of an untyped pass-through", "flow", 1, 0, dict(build.REPAIRED, FixD15=False), "NoPanic"),
              ("D7: a second Compile appends to the handler maps the first runnable shares", "wf", 0, 1, dict(build.REPAIRED, FixD7=False), "FrozenMaps")]
    # (D30 is an outcome that depends on map order: no single-state invariant shows it; the generator reports such constructions instead)
    if tier == "quick":
        models = [("seq", 2, 0, ["AllOutcome", "FrozenMaps"]), ("seqp", 2, 0, ["AllOutcome", "FrozenMaps"]), ("wf", 0, 2, ["AllOutcome", "FrozenMaps"]),
                  ("wfin", 3, 1, ["AllOutcome", "FrozenMaps"]), ("flow", 1, 1, ["AllOutcome", "FrozenMaps"]),
                  ("chain", 2, 2, ["AllOutcome", "FrozenMaps"]), ("cyc", 3, 0, ["AllOutcome", "FrozenMaps"], 2),
                  ("subopt", 0, 1, ["AllOutcome", "FrozenMaps"]), ("wfpt", 2, 0, ["AllOutcome", "FrozenMaps"])]
        fams = [dict(fam="seq", adds=2, post=0), dict(fam="seqp", adds=2, post=0), dict(fam="wf", adds=0, post=2), dict(fam="wfin", adds=3, post=1),
                dict(fam="flow", adds=1, post=1), dict(fam="chain", adds=2, post=2), dict(fam="cyc", adds=3, post=0, br=2), dict(fam="subopt", adds=0, post=1), dict(fam="wfpt", adds=2, post=0, att=40),
                dict(fam="seqs", adds=2, post=1, simulate="num=240", depth=50, limit=5000),
                dict(fam="seq", adds=4, post=2, aftererr=2, simulate="num=320", depth=70, limit=8000)]
        limit = 60000
    else:
        models = [("seq", 2, 0, ["AllOutcome", "FrozenMaps"]), ("seqp", 2, 0, ["AllOutcome", "FrozenMaps"]), ("seqs", 1, 1, ["AllOutcome", "FrozenMaps"]),
                  ("wf", 0, 3, ["AllOutcome", "FrozenMaps"]), ("wfin", 4, 1, ["AllOutcome", "FrozenMaps"]), ("flow", 2, 1, ["AllOutcome", "FrozenMaps"]),
                  ("chain", 3, 3, ["AllOutcome", "FrozenMaps"]), ("cyc", 3, 0, ["AllOutcome", "FrozenMaps"], 2),
                  ("subopt", 0, 2, ["AllOutcome", "FrozenMaps"]), ("wfpt", 2, 0, ["AllOutcome", "FrozenMaps"])]
        fams = [dict(fam="seq", adds=2, post=0), dict(fam="seqp", adds=2, post=0), dict(fam="seqs", adds=1, post=1), dict(fam="wf", adds=0, post=3),
                dict(fam="wfin", adds=4, post=1), dict(fam="chain", adds=3, post=3), dict(fam="cyc", adds=3, post=0, br=2), dict(fam="subopt", adds=0, post=2), dict(fam="wfpt", adds=2, post=0, att=40),
                dict(fam="cyc", adds=5, post=1, br=3, simulate="num=3000", depth=80),
                dict(fam="flow", adds=2, post=1, timeout=1500),
                dict(fam="seqs", adds=3, post=1, aftererr=2, simulate="num=2500", depth=60),
                dict(fam="seqp", adds=4, post=2, aftererr=2, br=2, simulate="num=3000", depth=80),
                dict(fam="seq", adds=5, post=2, aftererr=2, br=2, simulate="num=4000", depth=80)]
        limit = 600000
    # D30 at model level: with FixD30 off the model itself ends some workflow constructions in two ways (order of the node map)
    _, pre = build.gen("wfpt", 2, 0, fix=dict(build.REPAIRED, FixD30=False), workers=1)
    log("  model wfpt/2/0 before the repair D30: %d constructions whose Compile outcome depends on the order of the node map" % pre.nondet)
    return run_build_check("C20", tier, models=models, probes=probes, families=fams, limit=limit, nontrivial=_violation_or_post, repo=repo,
                           assumptions=[
                               "'the first error sticks' is read for Add* errors: a failed Compile (missing entry, cycle ...) is not recorded by the "
                               "builder and may be followed by repairs; a second Compile may succeed or fail, only the first runnable must not change",
                               "ill-formed = the statement's list as reference predicates (BuildRule.tla AddBad/CompileBad); rejection may come at any "
                               "call up to and including Compile",
                               "Workflow front end: its Add* / SetStaticValue calls return no error value, so refusal is only demanded of Compile and immutability is judged by the probes of the first runnable"])


def _replay(prop):
    def fn(path):
        art = json.load(open(path))
        case = art["case"]["case"]
        case.setdefault("fam", "replay")
        case.setdefault("pred", [])
        lines, _ = build.replay([case])
        res = build.validate(prop, lines, nproc=1)
        idx = build.index_cases(lines)
        hits = [b for b in res["bad"] if b[2] in build.OWN[prop]]
        for ln in lines:
            log("  " + ln[:400])
        if hits:
            sig = build.classify(case, hits[0][2], hits[0][3] if len(hits[0]) > 3 else "", idx[case["id"]])
            if sig in vlib.load_known(prop):
                log("KNOWN-FINDING: property=%s sig=%s (replay)" % (prop, sig))
                return 0
            log("VIOLATION property=%s replay=%s" % (prop, path))
            log("  sig=%s detail=%s" % (sig, hits[0][2:]))
            return 1
        log("[%s] replay: the observation is accepted by the rule" % prop)
        return 0
    return fn


CHECKS = {"C07": c07, "C20": c20}
REPLAY = {"C07": _replay("C07"), "C20": _replay("C20")}
