"""Checks of the tools family: C17 (compose.ToolsNode) and C18 (flow/agent/react).

Pipeline of both checks (DESIGN.md 3.5, BUILDING.md):
  1. model level   TLC checks that the implementation-shaped model (spec/ToolsNode.tla, spec/ReAct.tla) satisfies the
                   property-level rule (spec/ToolsRule.tla, spec/ReActRule.tla) for every behaviour inside the bounds, and that the
                   rule rejects the model with a seeded defect (Bug constants): failure here = inconclusive (exit 2)
  2. generation    the same model, in generation mode, prints every scenario + schedule (CASE lines)
  3. replay        the Go harness drives the REAL ToolsNode / ReAct agent through the public API and records observations
  4. verdict       TLC validates the observations against ToolsObs / ReActObs (= the rule applied line by line);
                   only a rejection there, reproduced by a second run of the same case, is a VIOLATION
"""
import json
import os
import random
import re
import time

import vlib
from vlib import log, Inconclusive

H = vlib.HARNESS
FAM = {
    "C17": dict(pkg="compose", overlay={"compose/zz_verif_tools_test.go": os.path.join(H, "compose", "zz_verif_tools_test.go")},
                test="^TestVerifTools$", marker="VERIF-TOOLS cases=%d", obs="ToolsObs", model="ToolsNode"),
    "C18": dict(pkg="flow/agent/react", overlay={"flow/agent/react/zz_verif_react_test.go": os.path.join(H, "flow", "agent", "react", "zz_verif_react_test.go")},
                test="^TestVerifReact$", marker="VERIF-REACT cases=%d", obs="ReActObs", model="ReAct"),
}


def _val(v):
    if isinstance(v, bool):
        return "TRUE" if v else "FALSE"
    if isinstance(v, str):
        return '"%s"' % v
    if isinstance(v, (set, frozenset, list, tuple)):
        return "{" + ", ".join(_val(x) for x in v) + "}"
    return str(v)


def cfg_text(consts, invariants, *, props=(), spec=False, deadlock=True):
    lines = ["CONSTANTS"] + ["  %s = %s" % (k, _val(v)) for k, v in consts.items()]
    lines += ["SPECIFICATION Spec"] if spec else ["INIT Init", "NEXT Next"]
    lines += ["INVARIANT " + i for i in invariants] + ["PROPERTY " + p for p in props]
    lines += ["CHECK_DEADLOCK " + ("TRUE" if deadlock else "FALSE")]
    return "\n".join(lines) + "\n"


def run_model(prop, name, consts, *, invariants, props=(), spec=False, timeout=600, workers=4, expect_violation=None, simulate=None,
              depth=None):
    """One TLC run of the implementation-shaped model.  expect_violation: name of the invariant the seeded defect must break."""
    fam = FAM[prop]
    run = vlib.tlc(fam["model"], "mc_%s.cfg" % name, files={"mc_%s.cfg" % name: cfg_text(consts, invariants, props=props, spec=spec)},
                   workers=workers, timeout=timeout, heap="6g", simulate=simulate, depth=depth, seed=vlib.SEED if simulate else None)
    if expect_violation:
        if run.timed_out or run.error != "invariant:" + expect_violation:
            raise Inconclusive("model %s with seeded defect: the rule did not reject it (TLC: %s)\n%s" % (name, run.error, run.stdout[-2000:]))
    else:
        vlib.tlc_must_pass(run, "model check " + name)
    log("  model %-22s %8d distinct states, %9d generated, depth %2d, %5.1fs%s" % (
        name, run.distinct, run.generated, run.depth, run.wall_s, "  (seeded defect rejected: %s)" % run.error if expect_violation else ""))
    return run


def generate(prop, name, consts, *, invariants, timeout=600, workers=4, simulate=None, depth=None):
    fam = FAM[prop]
    run = vlib.tlc(fam["model"], "gen_%s.cfg" % name, files={"gen_%s.cfg" % name: cfg_text(consts, list(invariants) + ["Emit"], deadlock=False)},
                   workers=workers, timeout=timeout, heap="6g", simulate=simulate, depth=depth, seed=vlib.SEED if simulate else None)
    vlib.tlc_must_pass(run, "scenario generation " + name)
    out = sorted(set(js for (js,) in [t for t in run.tagged("CASE") if len(t) == 1]))
    log("  family %-22s %7d cases (TLC %d distinct states, %.1fs)" % (name, len(out), run.distinct, run.wall_s))
    return [json.loads(js) for js in out], run


def replay(prop, cases, *, repo=None, race=False, timeout=900, env=None):
    fam = FAM[prop]
    d = vlib.mkscratch("verif-%s-" % prop.lower())
    cp, op = os.path.join(d, "cases.ndjson"), os.path.join(d, "obs.ndjson")
    with open(cp, "w") as fh:
        for c in cases:
            fh.write(json.dumps(c, separators=(",", ":")) + "\n")
    e = {"VERIF_CASES": cp, "VERIF_OUT": op}
    e.update(env or {})
    code, output, wall = vlib.go_test(fam["pkg"], fam["overlay"], fam["test"], race=race, timeout=timeout, repo=repo, args=["-test.v"], env=e)
    return code, output, wall, (vlib.read_lines(op) if os.path.exists(op) else [])


def index_cases(lines):
    idx, cur = {}, None
    for ln in lines:
        if ln.startswith('{"ev":"case"'):
            c = json.loads(ln)
            cur = c["id"]
            idx[cur] = (c, [ln])
        elif cur is not None:
            idx[cur][1].append(ln)
    return idx


def validate(prop, lines, nproc=4, timeout=900):
    return vlib.validate_traces(FAM[prop]["obs"], FAM[prop]["obs"] + ".cfg", lines, nproc=nproc, timeout=timeout, stack="128m")


_RE_BAD = re.compile(r'<<\s*"BAD"\s*,(.*?)>>', re.S)


def bad_tuples(res):
    """Every <<"BAD", case id, line, reason, ...>> of the validation runs.  TLC pretty-prints a long tuple over several lines, which
    vlib's one-line parser does not see, so the tuples are re-read from the raw output here."""
    out, seen = [], set()
    for run in res["runs"]:
        for m in _RE_BAD.finditer(run.stdout):
            try:
                t = tuple(json.loads("[" + m.group(1).strip() + "]"))
            except Exception:
                raise Inconclusive("unreadable BAD tuple in TLC output: " + m.group(0)[:300])
            if t not in seen:
                seen.add(t)
                out.append(t)
    return out


def sample_cases(cases, limit, rnd):
    if limit is None or len(cases) <= limit:
        return list(cases), True
    cs = list(cases)
    rnd.shuffle(cs)
    return cs[:limit], False


# ================================================================================================ C17

T_ALL = dict(MaxCalls=2, MaxTools=2, Modes=["invoke", "stream"], Graphs=[True, False], Handlers=["none", "ok", "fail"],
             Kinds=["inv", "str", "both"], Behs=["ok", "empty", "fail", "panic", "failmid"], MaxChunks=2, AllowUnknown=True, MaxFaulty=3, Consumers=1,
             Eager=False, Bug="none")


def t_consts(**kw):
    c = dict(T_ALL)
    c.update(kw)
    return c


def c17_crash_cases(cases, repo, max_crashes=6):
    """A panic that kills the test process (a tool panic nobody recovers, a nil stream dereferenced in a library goroutine ...) cannot
    be recorded by the harness from inside.  The cases are re-run in serial mode (every line flushed at once); the case that was open
    when the process died gets the observation `escaped` (where=process), which ToolsObs judges like any other line, and the run
    goes on behind it.  After max_crashes crashes the remaining cases are dropped (the verdict is a violation or inconclusive anyway)."""
    todo = list(cases)
    lines, crashes, done, unattributed = [], 0, [], 0
    while todo:
        code, output, wall, ls = replay("C17", todo, repo=repo, env={"VERIF_TOOLS_SERIAL": "1"})
        idx = index_cases(ls)
        if code == 0:
            lines += ls
            done += todo
            break
        crashes += 1
        open_ids = [cid for cid, (c, l) in idx.items() if not l[-1].startswith('{"ev":"end"')]
        if "panic" not in output and "fatal error" not in output:
            raise Inconclusive("C17 replay (serial) failed without a crash report\n" + output[-3000:])
        if len(open_ids) != 1:
            # the process died between two cases (a goroutine left behind by the case just closed): the observation goes to the
            # last case that was closed; as always it only counts if the second run reproduces it
            unattributed += 1
            closed = [k for k in idx if k not in open_ids]
            if unattributed > 4 or not closed:
                raise Inconclusive("C17 replay (serial): the process keeps dying outside any case\n" + output[-3000:])
            last = closed[-1]
            for k in closed:
                l = idx[k][1]
                lines += (l[:-1] + ['{"ev":"died","where":"process, just after the case was closed"}', l[-1]]) if k == last else l
            done += [c for c in todo if c["id"] in closed]
            todo = [c for c in todo if c["id"] not in closed]
            if crashes >= max_crashes:
                log("  note: %d process crashes; the remaining %d cases are not replayed" % (crashes, len(todo)))
                break
            continue
        cid = open_ids[0]
        for k, (c, l) in idx.items():
            lines += l
            if k == cid:
                lines += ['{"ev":"died","where":"process"}', '{"ev":"end","forced":false,"note":"process crash"}']
        pos = [i for i, c in enumerate(todo) if c["id"] == (cid[:-5] if cid.endswith("+post") else cid)][0]
        done += todo[:pos + 1]
        todo = todo[pos + 1:]
        if crashes >= max_crashes:
            log("  note: %d process crashes; the remaining %d cases are not replayed" % (crashes, len(todo)))
            break
    return lines, crashes, done


def c17_classify(case, reason, obs):
    """signature = rejected clause / form / inside a graph? / kinds of fault present among the called tools"""
    behs = sorted({t["beh"] for t in case["tools"] if t["beh"] != "ok" and any(c["name"] == t["name"] for c in case["calls"])})
    if any(c["name"] == "zz" for c in case["calls"]):
        behs.append("unknown-" + case["handler"])
    return "%s/%s%s%s" % (reason, case["mode"], "+graph" if case["graph"] else "", ("/" + "+".join(behs)) if behs else "")


def c17_nontrivial(case, obs):
    """at least two calls whose forced completion order differs from the call order, or a failing / panicking / unknown tool"""
    first = []
    for i in case["sched"]:
        if i not in first:
            first.append(i)
    return (len(case["calls"]) >= 2 and first != sorted(first)) or any(t["beh"] != "ok" for t in case["tools"]) or \
        any(c["name"] == "zz" for c in case["calls"])


def c17(tier, repo=None, only_cases=None):
    prop = "C17"
    t0 = time.time()
    rnd = random.Random(vlib.SEED * 104729 + 17)
    repo = repo or vlib.REPO
    log("[%s] tier=%s seed=%d repo=%s" % (prop, tier, vlib.SEED, repo))
    inv = ["RuleOK", "Closed"]
    model_runs, states, trans = [], 0, 0

    def mc(name, consts, **kw):
        nonlocal states, trans
        run = run_model(prop, name, consts, invariants=inv, **kw)
        states += run.distinct
        trans += run.generated
        model_runs.append({"cfg": name, "constants": consts, "distinct": run.distinct, "generated": run.generated, "depth": run.depth,
                           "wall_s": round(run.wall_s, 1), "seeded_defect_rejected": kw.get("expect_violation")})

    fams = []
    if only_cases is None:
        # ---- 1. Impl => P on the model, every completion order
        mc("n2-all", t_consts())
        mc("n2-liveness", t_consts(MaxCalls=2, MaxChunks=1, Graphs=[True]), props=["Terminates"], spec=True)
        mc("n3-faults", t_consts(MaxCalls=3, MaxTools=3, MaxChunks=1, Behs=["ok", "fail", "panic"], Kinds=["inv", "str"], Handlers=["none", "ok"], MaxFaulty=2))
        for bug in ("reverse", "sharedidx", "noinlinewait", "dropempty", "donebeforeerr", "erriseof", "cancelonreturn"):
            mc("n2-bug-" + bug, t_consts(Bug=bug), expect_violation="RuleOK")
        two = dict(Consumers=2, Modes=["stream"], Graphs=[True], Behs=["ok", "empty", "failmid"], Handlers=["none", "ok"])
        mc("n2-two-consumers", t_consts(**two))
        mc("n2-bug-concatinplace", t_consts(Bug="concatinplace", **two), expect_violation="RuleOK")
        if tier == "thorough":
            mc("n3-chunks", t_consts(MaxCalls=3, MaxTools=2, Behs=["ok", "empty", "failmid"], MaxFaulty=1, AllowUnknown=False, Graphs=[False]), timeout=1500)
            mc("n3-all-kinds", t_consts(MaxCalls=3, MaxTools=3, MaxChunks=1, Behs=["ok", "fail", "panic"], MaxFaulty=3), timeout=1500)
            mc("n4-sim", t_consts(MaxCalls=4, MaxTools=3), simulate="num=40000", depth=60, timeout=1200)
        # ---- 2. scenarios + schedules
        if tier == "quick":
            fams = [("n2-all", t_consts(Eager=True), None, {}),
                    ("n3-faults", t_consts(Eager=True, MaxCalls=3, MaxTools=3, MaxChunks=1, Behs=["ok", "fail", "panic"], Kinds=["inv", "str"]), 2600, {}),
                    ("n3-chunks", t_consts(Eager=True, MaxCalls=3, MaxTools=2, Behs=["ok", "empty", "failmid"], Kinds=["inv", "str"], MaxFaulty=1, AllowUnknown=False, Graphs=[False]), 1400, {})]
        else:
            fams = [("n2-all", t_consts(Eager=True), None, {}),
                    ("n3-faults", t_consts(Eager=True, MaxCalls=3, MaxTools=3, MaxChunks=1, Behs=["ok", "fail", "panic"]), None, {}),
                    ("n3-chunks", t_consts(Eager=True, MaxCalls=3, MaxTools=2, Behs=["ok", "empty", "failmid"], MaxFaulty=1, AllowUnknown=False), 30000, {"timeout": 1500}),
                    ("n4-sim", t_consts(Eager=True, MaxCalls=4, MaxTools=3), 20000, {"simulate": "num=30000", "depth": 60, "timeout": 1200})]
    cases, gen_stats, exhaustive = [], [], True
    for name, consts, limit, kw in fams:
        cs, run = generate(prop, name, consts, invariants=inv, **kw)
        if name.startswith("n4"):
            cs = [c for c in cs if len(c["calls"]) == 4]
        elif name.startswith("n3"):
            cs = [c for c in cs if len(c["calls"]) == 3]
        picked, full = sample_cases(cs, limit, rnd)
        exhaustive = exhaustive and full and not kw.get("simulate")
        gen_stats.append({"family": name, "constants": consts, "cases_enumerated": len(cs), "cases_replayed": len(picked),
                          "tlc_distinct": run.distinct, "mode": "simulate" if kw.get("simulate") else "exhaustive"})
        for c in picked:
            c["fam"] = name
        cases += picked
    if only_cases is not None:
        cases = only_cases
        exhaustive = False
    for i, c in enumerate(cases):
        c.setdefault("id", "%s-%d" % (c.get("fam", "r"), i))
        names = [k["name"] for k in c["calls"]]
        repeated_inv = any((t["kind"] == "inv" or (t["kind"] == "both" and c["mode"] == "invoke")) and names.count(t["name"]) >= 2
                           for t in c["tools"])
        if repeated_inv and "wrap" not in c and rnd.random() < 0.85:
            c["wrap"], c["jsonargs_wanted"] = True, True      # the same utils-built tool decoding several calls at once
        c.setdefault("wrap", rnd.random() < 0.4)     # secondary dimension: tools built with components/tool/utils
        c.setdefault("optlist", rnd.random() < 0.2)  # secondary dimension: tool list given per call (WithToolList)
        if "shape" not in c:
            # graph cases: a part of them puts consumers behind the tools node (non-stream branch condition + successor, two
            # successors, callback handler + successor); in the stream form these concatenate copies of the same frames
            c["shape"] = ""
            if c["graph"] and rnd.random() < (0.6 if c["mode"] == "stream" else 0.2):
                c["shape"] = ("branch", "fanout", "callback")[rnd.randrange(3)]
        c.setdefault("mfail", rnd.random() < 0.6)    # utils-built failing tools fail in their custom output encoder
        c.setdefault("eofwrap", rnd.random() < 0.5)  # a stream failing in the middle fails with an error that wraps io.EOF
        if "deep" not in c:
            # panicking tools panic from a deep recursion in a fraction of the cases: the long unwinding widens the window between
            # the panic and the moment its error is stored (needs the panicking call to finish last: the schedules cover that)
            c["deep"] = any(t["beh"] == "panic" for t in c["tools"]) and rnd.random() < 0.35
        if "jsonargs" not in c:
            # arguments as JSON objects, field "o" omitted in every other call; with wrap the utils tools decode them by default
            # into a pointer-to-struct / map input (the same tool called 2-3 times in one message runs these decodes concurrently)
            c["jsonargs"] = bool(c.pop("jsonargs_wanted", False)) or rnd.random() < (0.8 if c["wrap"] else 0.15)
            if c["jsonargs"]:
                flip = rnd.randrange(2)
                for i, k in enumerate(c["calls"]):
                    k["args"] = '{"v":"%s"%s}' % (k["args"], (',"o":"o%d"' % (i + 1)) if (i + flip) % 2 == 0 else "")

    # ---- 3. replay on the real ToolsNode
    def run_cases(cs):
        code, output, wall, lines = replay(prop, cs, repo=repo)
        crashes = 0
        if code != 0 and ("panic" in output or "fatal error" in output) and "build failed" not in output:
            log("  note: the test process died; re-running in serial mode to find the case(s)")
            lines, crashes, cs = c17_crash_cases(cs, repo)
        else:
            vlib.go_must_run(code, output, "C17 replay")
            if FAM[prop]["marker"] % len(cs) not in output:
                raise Inconclusive("C17 replay: harness did not report all cases\n" + output[-3000:])
        seen = {k for k in index_cases(lines).keys() if not k.endswith("+post")}
        if len(seen) < len(cs):     # the harness stops replaying after 20 hanging cases (each is an observation `hang`)
            hangs = sum(1 for ln in lines if ln.startswith('{"ev":"hang"'))
            if not hangs:
                raise Inconclusive("C17 replay: %d of %d cases observed and no hang recorded" % (len(seen), len(cs)))
            log("  note: %d cases hang; the harness stopped replaying after them (%d of %d cases observed)" % (hangs, len(seen), len(cs)))
            cs = [c for c in cs if c["id"] in seen]
        return lines, wall, crashes, cs

    lines, wall_go, crashes, cases = run_cases(cases)
    log("  replayed %d cases on the real ToolsNode: %d observation lines, %.0fs%s" % (len(cases), len(lines), wall_go, (", %d process crashes" % crashes) if crashes else ""))
    res = validate(prop, lines)
    idx = index_cases(lines)
    nposts = sum(1 for k in idx if k.endswith("+post"))     # second, plain call after a call with WithToolList: a case of its own
    if len(idx) - nposts != len(cases):
        raise Inconclusive("C17: %d cases sent, %d cases observed" % (len(cases), len(idx) - nposts))
    bad = [(b[0], b[2]) for b in bad_tuples(res)]
    harness_bad = [b for b in bad if b[1] in ("unknown-observation", "line-outside-a-case", "case-not-closed-by-an-end-line", "trace-ends-inside-a-case")]
    if harness_bad:
        raise Inconclusive("C17: malformed observation trace: %s" % harness_bad[:3])
    unforced = sum(1 for cid, (c, l) in idx.items() if '"forced":false' in l[-1])
    # ---- 4. reproduce, classify, verdict
    verdict = vlib.Verdict(prop)
    confirmed = []
    if bad:
        by_id = {c["id"]: c for c in cases}
        by_id.update({c["id"] + "+post": c for c in cases})
        again = list({id(by_id[cid]): by_id[cid] for cid, _ in bad[:300]}.values())
        lines2, _, _, _ = run_cases(again)
        res2 = validate(prop, lines2)
        bad2 = {(b[0], b[2]) for b in bad_tuples(res2)}
        idx2 = index_cases(lines2)
        for cid, reason in bad[:300]:
            if (cid, reason) in bad2:
                confirmed.append((cid, reason, idx2[cid][1]))
            else:
                log("  note: rejection of %s (%s) did not reproduce on a second run: not counted" % (cid, reason))
        by = {}
        for cid, reason, obs in confirmed:
            sig = c17_classify(by_id[cid], reason, obs)
            by.setdefault(sig, []).append((cid, reason, obs))
        for sig, items in sorted(by.items()):
            items.sort(key=lambda x: (len(by_id[x[0]]["calls"]), len(x[2])))
            cid, reason, obs = items[0]       # smallest reproduction per signature
            verdict.violation(sig, {"case": by_id[cid], "observations": [json.loads(x) for x in obs], "same_signature": len(items)}, reason)
    code, n_new, n_known = verdict.finish()
    if unforced > max(20, len(cases) // 20) and code == 0:
        raise Inconclusive("C17: the schedule could not be forced in %d of %d cases" % (unforced, len(cases)))
    sigs = set()
    orders = set()
    for cid, (c, obs) in idx.items():
        if c17_nontrivial(c, obs):
            sigs.add(json.dumps([c["mode"], c["graph"], c["handler"], c["calls"], c["tools"], c["sched"]], sort_keys=True))
        orders.add((len(c["calls"]), tuple(c["sched"])))
    some = [idx[k] for k in vlib.sample(sorted(idx.keys()), 3)]
    cov = {"states": states, "transitions": trans, "traces_validated_against_impl": len(idx),
           "samples": [{"case": c, "observations": [json.loads(x) for x in o[1:12]]} for c, o in some],
           "evaluations": len(idx), "distinct_nontrivial": len(sigs),
           "rule": "cases = every (call list x tool kinds x behaviours x handler x mode x graph x schedule of gated tool steps) that TLC enumerates "
                   "from spec/ToolsNode.tla inside the family bounds (families marked sampled are cut to the replay budget by VERIF_SEED); each is run "
                   "on the real ToolsNode with gate-blocked tools so that the schedule is the real completion / chunk order, and its observation "
                   "trace is validated by TLC against spec/ToolsObs.tla; distinct = distinct (scenario, schedule); non-trivial = " + c17_nontrivial.__doc__,
           "exhaustive": exhaustive, "model_runs": model_runs, "families": gen_stats, "observation_lines": len(lines),
           "trace_validation_states": res["states"], "distinct_schedules": len(orders), "schedule_not_forced": unforced,
           "process_crashes": crashes, "rejected_cases": len(bad), "confirmed": len(confirmed), "known_findings": n_known}
    if only_cases is None:       # a --replay run never overwrites the evidence of the last real run
        vlib.write_evidence(prop, tier, "model_checking", cov, assumptions=[
        "tools are the harness's deterministic functions name(args); a streaming tool yields 1-2 chunks; arguments are distinct per call",
        "a panic of the first (inline) tool when ToolsNode is called outside a graph reaches the caller by construction: not judged",
        "a case still running 4 s after its call started is recorded as `hang` (the gates make a case take microseconds)",
        "with several failing tools the error of any one of them is accepted; the error is identified by errors.As or by its text",
        "TLC, the Json community module and the Go harness are trusted"], wall_s=time.time() - t0, violations=n_new)
    log("[%s] %s: %d cases validated, %d distinct non-trivial, %d rejected (%d confirmed, %d known), %.0fs" % (
        prop, "VIOLATION" if code else "ok", len(idx), len(sigs), len(bad), len(confirmed), n_known, time.time() - t0))
    return code


# ================================================================================================ C18

R_STYLES_JUDGED = ["d-whole", "d-tcfirst", "d-emptyfirst", "d-splitargs", "d-percall", "w-whole", "w-tcfirst", "w-percall", "w-contentfirst"]
R_ALL = dict(MaxMsgs=2, MaxCalls=2, MaxTools=2, MaxSteps=[0, 2, 3, 4, 5, 6], RdMode="all", Modifiers=[True, False], Inplace=[True, False],
             Styles=R_STYLES_JUDGED, Contents=[True, False], Wide=[], Eager=False, Bug="none")
STYLE = {"d": "default", "w": "whole"}


def r_consts(**kw):
    c = dict(R_ALL)
    c.update(kw)
    return c


def c18_decorate(cases, rnd):
    """Secondary dimensions that the generation run does not enumerate (it enumerates script x return-directly set x MaxStep) are
    spread by VERIF_SEED: text content of tool-calling messages, message modifier, checker x chunking, tool kinds, model API, pipe, agent as a node of a parent graph."""
    for i, c in enumerate(cases):
        c["id"] = "%s-%d" % (c.get("fam", "r"), i)
        sty = R_STYLES_JUDGED[rnd.randrange(len(R_STYLES_JUDGED))]
        c["checker"], c["chunking"] = STYLE[sty[0]], sty[2:]
        c["modifier"] = rnd.random() < 0.35
        c["inplace"] = (not c["modifier"]) and rnd.random() < 0.4      # a MessageModifier that edits its argument in place
        if rnd.random() < 0.5:
            for j, m in enumerate(c["script"]):
                if m["calls"]:
                    m["content"] = "th%d" % (j + 1)
        else:
            for m in c["script"]:
                if m["calls"]:
                    m["content"] = ""
        c["tkinds"] = {t: ("str" if rnd.random() < 0.4 else "inv") for t in c["tools"]}
        c["api"] = "legacy" if rnd.random() < 0.3 else "tcm"
        c["pipe"] = rnd.random() < 0.4
        c["nested"] = rnd.random() < 0.25
        if rnd.random() < 0.3:                       # two original messages instead of one
            c["msgs"] = [{"role": "system", "content": "s0", "calls": [], "tcid": ""}] + c["msgs"]
        # the two runs of a case use ONE agent; in a part of the cases they overlap in time (the second run starts while the first
        # is inside its first model step)
        x = rnd.random()
        c["overlap"] = "generate-first" if x < 0.2 else ("stream-first" if x < 0.4 else "")
        # wide assistant messages (>= 5 tool calls): streaming tools whose result streams close in a prescribed order; half of the
        # orders start with the 5th stream, the rest are random permutations
        # a third run: the caller closes the streamed answer after one chunk (more often when the script ends with a text answer)
        c["early"] = rnd.random() < (0.8 if any(not m["calls"] for m in c["script"]) else 0.15)
        c["order"] = {}
        for j, m in enumerate(c["script"]):
            w = len(m["calls"])
            if w >= 5:
                perm = list(range(1, w + 1))
                rnd.shuffle(perm)
                if rnd.random() < 0.5:
                    perm.remove(5)
                    perm = [5] + perm
                c["order"][str(j + 1)] = perm
                c["tkinds"] = {t: "str" for t in c["tools"]}
    return cases


def c18_classify(case, reason, mode):
    extra = []
    if case["rd"]:
        extra.append("rd")
    if case["modifier"]:
        extra.append("modifier")
    if case.get("inplace"):
        extra.append("inplace")
    if case["maxstep"]:
        extra.append("maxstep")
    return "%s/%s%s" % (reason, mode, ("/" + "+".join(extra)) if extra else "")


def c18_nontrivial(case, obs):
    """the run had at least two model calls (a history had to be rebuilt), or ended by return-directly, or by the step limit"""
    n = sum(1 for ln in obs if ln.startswith('{"ev":"mcall"'))
    return n >= 4 or any('"steplimit":true' in ln for ln in obs) or any('"role":"tool"' in ln for ln in obs if ln.startswith('{"ev":"answer"'))


def c18(tier, repo=None, only_cases=None):
    prop = "C18"
    t0 = time.time()
    rnd = random.Random(vlib.SEED * 15485863 + 18)
    repo = repo or vlib.REPO
    log("[%s] tier=%s seed=%d repo=%s" % (prop, tier, vlib.SEED, repo))
    inv = ["RuleOK", "Closed2"]
    model_runs, states, trans = [], 0, 0

    def mc(name, consts, **kw):
        nonlocal states, trans
        run = run_model(prop, name, consts, invariants=inv, **kw)
        states += run.distinct
        trans += run.generated
        model_runs.append({"cfg": name, "constants": consts, "distinct": run.distinct, "generated": run.generated, "depth": run.depth,
                           "wall_s": round(run.wall_s, 1), "seeded_defect_rejected": kw.get("expect_violation")})

    fams = []
    if only_cases is None:
        small = dict(Styles=["d-whole"], Contents=[False])
        mc("m2-styles", r_consts(MaxSteps=[0, 2, 3, 5]))
        mc("m3-core", r_consts(MaxMsgs=3, Modifiers=[False], Inplace=[False], **small))
        mc("m2-wide", r_consts(MaxCalls=1, MaxSteps=[0, 4], Modifiers=[False], Inplace=[False], Wide=[5, 6], **small))
        mc("m2-liveness", r_consts(MaxSteps=[0, 3], RdMode="none", Modifiers=[False], Inplace=[False], **small), props=["Terminates"], spec=True)
        for bug in ("noappend", "norecord", "nomax", "rdlast", "modleak", "nocopy", "noclose"):
            mc("m2-bug-" + bug, r_consts(Bug=bug, **small), expect_violation="RuleOK")
        # the documented limitation (AgentConfig.StreamToolCallChecker): default first-chunk checker + content before tool calls
        mc("m2-documented-limit", r_consts(Styles=["d-contentfirst"], Contents=[True], MaxSteps=[0], RdMode="none", Modifiers=[False], Inplace=[False]),
           expect_violation="RuleOK")
        if tier == "thorough":
            mc("m3-styles", r_consts(MaxMsgs=3, MaxSteps=[0, 3, 4, 6]), timeout=1700)
            mc("m4-core", r_consts(MaxMsgs=4, MaxTools=3, MaxSteps=[0, 4, 6], Modifiers=[False], Inplace=[False], **small), timeout=1700)
        gen = dict(Eager=True, Modifiers=[False], Inplace=[False], **small)
        if tier == "quick":
            fams = [("s3", r_consts(MaxMsgs=3, **gen), 2000, {}),
                    ("wide", r_consts(MaxMsgs=2, MaxCalls=1, MaxSteps=[0, 4], Wide=[5, 6, 7], **gen), 200, {})]
        else:
            fams = [("s3", r_consts(MaxMsgs=3, MaxTools=3, **gen), 15000, {"timeout": 1500}),
                    ("s4", r_consts(MaxMsgs=4, MaxTools=3, MaxSteps=[0, 2, 4, 5, 6], **gen), 15000, {"simulate": "num=20000", "depth": 120, "timeout": 1500}),
                    ("wide", r_consts(MaxMsgs=3, MaxCalls=1, MaxTools=3, MaxSteps=[0, 4, 6], Wide=[5, 6, 7], **gen), 3000, {})]
    cases, gen_stats, exhaustive = [], [], True
    for name, consts, limit, kw in fams:
        cs, run = generate(prop, name, consts, invariants=inv, **kw)
        picked, full = sample_cases(cs, limit, rnd)
        exhaustive = exhaustive and full and not kw.get("simulate")
        gen_stats.append({"family": name, "constants": consts, "cases_enumerated": len(cs), "cases_replayed": len(picked),
                          "tlc_distinct": run.distinct, "mode": "simulate" if kw.get("simulate") else "exhaustive"})
        for c in picked:
            c["fam"] = name
        cases += picked
    if only_cases is not None:
        cases, exhaustive = only_cases, False
    else:
        c18_decorate(cases, rnd)
        exhaustive = False      # the secondary dimensions are sampled

    def run_cases(cs):
        code, output, wall, lines = replay(prop, cs, repo=repo)
        vlib.go_must_run(code, output, "C18 replay")
        if FAM[prop]["marker"] % len(cs) not in output:
            raise Inconclusive("C18 replay: harness did not report all cases\n" + output[-3000:])
        return lines, wall

    lines, wall_go = run_cases(cases)
    log("  replayed %d cases (Generate + Stream each) on the real agent: %d observation lines, %.0fs" % (len(cases), len(lines), wall_go))
    res = validate(prop, lines)
    idx = index_cases(lines)
    if len(idx) != len(cases):
        hangs = sum(1 for ln in lines if ln.startswith('{"ev":"hang"'))
        if not hangs:
            raise Inconclusive("C18: %d cases sent, %d cases observed" % (len(cases), len(idx)))
        log("  note: %d cases hang; the harness stopped replaying after them (%d of %d cases observed)" % (hangs, len(idx), len(cases)))
        cases = [c for c in cases if c["id"] in idx]
    bad = [(b[0], b[2]) for b in bad_tuples(res)]
    modes = {(b[0], b[2]): (b[3] if len(b) > 3 else "") for b in bad_tuples(res)}
    harness_bad = [b for b in bad if b[1] in ("unknown-observation", "line-outside-a-case", "case-not-closed-by-an-end-line", "trace-ends-inside-a-case")]
    if harness_bad:
        raise Inconclusive("C18: malformed observation trace or hanging agent: %s" % harness_bad[:3])
    verdict = vlib.Verdict(prop)
    confirmed = []
    by_id = {c["id"]: c for c in cases}
    if bad:
        again = [by_id[cid] for cid, _ in bad[:300]]
        lines2, _ = run_cases(again)
        res2 = validate(prop, lines2)
        bad2 = {(b[0], b[2]) for b in bad_tuples(res2)}
        idx2 = index_cases(lines2)
        for cid, reason in bad[:300]:
            if (cid, reason) in bad2:
                confirmed.append((cid, reason, idx2[cid][1]))
            else:
                log("  note: rejection of %s (%s) did not reproduce on a second run: not counted" % (cid, reason))
        by = {}
        for cid, reason, obs in confirmed:
            by.setdefault(c18_classify(by_id[cid], reason, modes.get((cid, reason), "")), []).append((cid, reason, obs))
        for sig, items in sorted(by.items()):
            items.sort(key=lambda x: (len(by_id[x[0]]["script"]), len(x[2])))
            cid, reason, obs = items[0]
            verdict.violation(sig, {"case": by_id[cid], "observations": [json.loads(x) for x in obs], "same_signature": len(items)}, reason)
    code, n_new, n_known = verdict.finish()
    sigs = set()
    for cid, (c, obs) in idx.items():
        if c18_nontrivial(c, obs):
            k = by_id[cid]
            sigs.add(json.dumps([k["script"], k["rd"], k["maxstep"], k["modifier"], k["checker"], k["chunking"]], sort_keys=True))
    some = [idx[k] for k in vlib.sample(sorted(idx.keys()), 3)]
    cov = {"states": states, "transitions": trans, "traces_validated_against_impl": 2 * len(idx),
           "samples": [{"case": by_id[c["id"]], "observations": [json.loads(x) for x in o[1:14]]} for c, o in some],
           "evaluations": 2 * len(idx), "distinct_nontrivial": len(sigs),
           "rule": "cases = every (model script x return-directly set x MaxStep) that TLC enumerates from spec/ReAct.tla inside the family bounds "
                   "(cut to the replay budget by VERIF_SEED), decorated by VERIF_SEED with message modifier, checker x chunking, text content, tool "
                   "kinds, model API; each is run with Generate and with Stream on the real agent and its observation trace is validated by TLC "
                   "against spec/ReActObs.tla; distinct = distinct (script, rd, MaxStep, modifier, checker, chunking); non-trivial = " + c18_nontrivial.__doc__,
           "exhaustive": exhaustive, "model_runs": model_runs, "families": gen_stats, "observation_lines": len(lines),
           "trace_validation_states": res["states"], "rejected_cases": len(bad), "confirmed": len(confirmed), "known_findings": n_known}
    if only_cases is None:       # a --replay run never overwrites the evidence of the last real run
        vlib.write_evidence(prop, tier, "model_checking", cov, assumptions=[
        "the k-th model call answers script[min(k, |script|)]; tools are the deterministic functions name(args), never failing",
        "default step limit = number of nodes + 10 as documented at AgentConfig.MaxStep (12, and 13 when a return-directly set adds the direct-return node)",
        "content-before-tool-call chunkings are only used with a custom whole-stream StreamToolCallChecker: the default first-chunk checker is "
        "documented not to handle them (TLC confirms on the model that the rule would reject them: run m2-documented-limit)",
        "the step-limit error is recognised by errors.Is or by its text (errors.Is alone is property C13)",
        "the order in which the tools of one round finish is not forced here (C17 forces it)",
        "TLC, the Json community module and the Go harness are trusted"], wall_s=time.time() - t0, violations=n_new)
    log("[%s] %s: %d cases (x2 runs) validated, %d distinct non-trivial, %d rejected (%d confirmed, %d known), %.0fs" % (
        prop, "VIOLATION" if code else "ok", len(idx), len(sigs), len(bad), len(confirmed), n_known, time.time() - t0))
    return code


def replay_file(prop, path):
    data = json.load(open(path))
    case = data["case"].get("case", data["case"])
    fn = CHECKS[prop]
    return fn("quick", only_cases=[case])


CHECKS = {"C17": c17, "C18": c18}
REPLAY = {"C17": lambda p: replay_file("C17", p), "C18": lambda p: replay_file("C18", p)}
