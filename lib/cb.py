"""Pipeline pieces of the callback / option family (C10, C16): TLC models -> cases -> real runs -> TLC trace validation."""
import json
import os
import random
import sys

sys.path.insert(0, os.path.dirname(os.path.abspath(__file__)))
import vlib
from vlib import log, Inconclusive

CB_OVERLAY = {"compose/zz_verif_cb_test.go": os.path.join(vlib.HARNESS, "compose", "zz_verif_cb_test.go")}
ISO_OVERLAY = {"compose/zz_verif_cbiso_test.go": os.path.join(vlib.HARNESS, "compose", "zz_verif_cbiso_test.go")}
OPT_OVERLAY = {"compose/zz_verif_opt_test.go": os.path.join(vlib.HARNESS, "compose", "zz_verif_opt_test.go")}


def cfg_text(consts, invariants, init="Init", nxt="Next", extra=""):
    def val(v):
        if isinstance(v, bool):
            return "TRUE" if v else "FALSE"
        if isinstance(v, str):
            return '"%s"' % v
        if isinstance(v, (set, frozenset, list, tuple)):
            return "{" + ", ".join(val(x) for x in sorted(v)) + "}"
        return str(v)
    lines = ["CONSTANTS"] + ["  %s = %s" % (k, val(v)) for k, v in consts.items()]
    lines += ["INIT " + init, "NEXT " + nxt] + ["INVARIANT " + i for i in invariants] + ["CHECK_DEADLOCK FALSE", extra]
    return "\n".join(lines) + "\n"


# ------------------------------------------------------------------------------------------------ C10

def cb_consts(shape, mg=1, mu=4, mo=4, md=2, multi=False, fail=True, fix=False, gen=False, late=False, norebind=False, keepscope=False, extractfirst=False, nobreak=False, dv=False, sharebase=False):
    return {"Shape": shape, "MaxGlobal": mg, "MaxUndes": mu, "MaxOpts": mo, "MaxDOpts": md, "Multi": multi, "AllowFail": fail,
            "CopyFix": fix, "Gen": gen, "LateFlag": late, "NoRebind": norebind, "KeepScope": keepscope, "ExtractFirst": extractfirst, "NoBreak": nobreak, "NestedOnce": fix, "AllowDv": dv, "ShareBase": sharebase}


def cb_model(shape, *, fix, timeout=600, workers=4, **kw):
    """Impl => P on the model: Callbacks.tla (as coded, or with the proposed repair) judged by CbRule."""
    c = cb_consts(shape, fix=fix, gen=False, **kw)
    name = "mc_cb_%s_%s%s.cfg" % (shape, "fix" if fix else "asis", "_late" if kw.get("late") else "_norebind" if kw.get("norebind") else "_keepscope" if kw.get("keepscope") else "_xfirst" if kw.get("extractfirst") else "_nobreak" if kw.get("nobreak") else "_sharebase" if kw.get("sharebase") else "")
    return vlib.tlc("Callbacks", name, files={name: cfg_text(c, ("RuleOK",))}, workers=workers, timeout=timeout, heap="4g")


def cb_generate(shape, *, timeout=600, workers=4, simulate=None, depth=None, seed=None, tag="", **kw):
    c = cb_consts(shape, fix=False, gen=True, **kw)
    name = "gen_cb_%s%s.cfg" % (shape, tag)
    run = vlib.tlc("Callbacks", name, files={name: cfg_text(c, ("Emit",))}, workers=workers, timeout=timeout, heap="4g",
                   simulate=simulate, depth=depth, seed=seed)
    vlib.tlc_must_pass(run, "C10 scenario generation " + shape)
    seen, out = set(), []
    for t in run.tagged("CASE"):
        if len(t) != 1 or t[0] in seen:
            continue
        seen.add(t[0])
        out.append(json.loads(t[0]))
    out.sort(key=lambda c: json.dumps(c, sort_keys=True))
    return out, run


def cb_decorate(cases, rnd, stream_frac=0.4):
    """Secondary dimensions TLC does not enumerate, spread by the seed: call paradigm, node paradigms, what a handler does with its
    stream copy, handlers built with callbacks.NewHandlerBuilder."""
    for i, c in enumerate(cases):
        c["id"] = "%s-%d" % (c["shape"], i)
        leaves = [u["u"] for u in c["units"] if not u["graph"]]
        if rnd.random() < stream_frac:
            c["mode"] = "stream"
            if c["shape"] not in ("sbr", "nsbr", "tools") and rnd.random() < 0.4:
                c["mode"] = rnd.choice(["transform", "collect"])   # top-level call with a partly read array-backed input stream
            c["kinds"] = {u: rnd.choice(["i", "s", "s", "t"]) for u in leaves}
        else:
            c["mode"] = "invoke"
            c["kinds"] = {u: rnd.choice(["i", "i", "i", "s", "t"]) for u in leaves}
        c["bstream"] = rnd.random() < 0.5
        c["pol"] = {h["id"]: rnd.choice(["read", "read", "close", "half", "slow"]) for h in c["handlers"]}
        first = c["handlers"][0]["id"] if c["handlers"] else ""
        firsts = {first, "g1", "G1", "d1"}
        c["hb"] = {h["id"]: (h["id"] not in firsts and rnd.random() < 0.25) for h in c["handlers"]}
    return cases


# ------------------------------------------------------------------------------------------------ C16

def opt_consts(tree="std", pu=1, ms=6, mn=1, mp=1, w=2, types=("T1", "cb"), nc=1, mco=2, cw=3, mins=1, fix=False, minco=1, kind="graph",
               cbfix=True, bycomp=False, callmode="subsets", intr=False, restoredrops=False, bundle=1, modes=("invoke",), keyed=False, firstonly=False, keyeddrops=False, deduphead=False):
    return {"Tree": tree, "PU": pu, "MaxStmts": ms, "MaxNew": mn, "MaxPer": mp, "Window": w, "Types": list(types), "NCalls": nc,
            "MaxCallOpts": mco, "CallWindow": cw, "MinStmts": mins, "CopyFix": fix, "MinCallOpts": minco, "SubKind": kind,
            "CbCopyFix": cbfix, "SubByComponent": bycomp, "CallMode": callmode, "AllowIntr": intr, "RestoreDropsOpts": restoredrops, "MaxBundle": bundle, "Modes": list(modes), "AllowKeyed": keyed,
            "FirstOnly": firstonly, "KeyedStreamDrops": keyeddrops, "DedupIgnoresHead": deduphead}


def opt_model(name, *, fix, timeout=600, workers=4, **kw):
    c = opt_consts(fix=fix, **kw)
    cfg = "mc_opt_%s_%s%s%s.cfg" % (name, "fix" if fix else "asis", "" if kw.get("cbfix", True) else "_cbasis", "_bycomp" if kw.get("bycomp") else "_restoredrops" if kw.get("restoredrops") else "_firstonly" if kw.get("firstonly") else "_keyeddrops" if kw.get("keyeddrops") else "_deduphead" if kw.get("deduphead") else "")
    return vlib.tlc("Options", cfg, files={cfg: cfg_text(c, ("RuleOK",))}, workers=workers, timeout=timeout, heap="4g")


def opt_generate(name, *, timeout=600, workers=2, simulate=None, depth=None, seed=None, **kw):
    c = opt_consts(fix=False, **kw)
    cfg = "gen_opt_%s.cfg" % name
    run = vlib.tlc("Options", cfg, files={cfg: cfg_text(c, ("Emit",))}, workers=workers, timeout=timeout, heap="4g",
                   simulate=simulate, depth=depth, seed=seed)
    vlib.tlc_must_pass(run, "C16 scenario generation " + name)
    seen, out = set(), []
    for t in run.tagged("CASE"):
        if len(t) != 1 or t[0] in seen:
            continue
        seen.add(t[0])
        c = json.loads(t[0])
        c["fam"] = name
        out.append(c)
    out.sort(key=lambda c: json.dumps(c, sort_keys=True))
    return out, run


def _run_go(overlay, test, cases, *, race, timeout, repo):
    d = vlib.mkscratch("verif-cb-")
    cpath, out = os.path.join(d, "cases.ndjson"), os.path.join(d, "obs.ndjson")
    with open(cpath, "w") as fh:
        for c in cases:
            fh.write(json.dumps(c, separators=(",", ":")) + "\n")
    code, output, wall = vlib.go_test("compose", overlay, "^%s$" % test, race=race, timeout=timeout, repo=repo, args=["-test.v"],
                                      env={"VERIF_CASES": cpath, "VERIF_OUT": out})
    lines = vlib.read_lines(out) if os.path.exists(out) else []
    return code, output, wall, lines


def _replay(overlay, test, what, cases, marker, *, race=False, timeout=900, repo=None, crash_ok=False):
    """Run the harness over the cases.  With crash_ok (sequential harness that flushes after every case): a panic raised inside the
    LIBRARY (not in a harness frame) while a case runs ends that case with a `crash` line (which the rule rejects) and the
    remaining cases are run in a fresh process."""
    remaining, all_lines, wall_total, outputs, crashes = list(cases), [], 0.0, [], 0
    while True:
        code, output, wall, lines = _run_go(overlay, test, remaining, race=race, timeout=timeout, repo=repo)
        wall_total += wall
        outputs.append(output)
        if "%s cases=%d" % (marker, len(remaining)) in output and (code == 0 or (race and "DATA RACE" in output)):
            all_lines += lines
            break
        starts = [i for i, ln in enumerate(lines) if ln.startswith('{"ev":"case"')]
        if crash_ok and code != 0 and "panic:" in output and starts and "[build failed]" not in output:
            # the frame that raised the panic: first function line of the panicking goroutine that is not runtime / panic
            top = ""
            for ln in output.split("panic:", 1)[1].split("[running]:", 1)[-1].splitlines():
                ln = ln.strip()
                if not ln or ln.startswith("/") or ln.startswith("panic(") or ln.startswith("runtime.") or ln.startswith("goroutine "):
                    continue
                top = ln
                break
            if "compose.vcb" in top or "compose.vop" in top or top == "":
                raise Inconclusive("%s: the harness itself panicked\n%s" % (what, output[-4000:]))
            last = starts[-1]
            msg = output.split("panic:", 1)[1].strip().splitlines()[0][:200]
            all_lines += lines[:last] + [ln for ln in lines[last:] if not ln.startswith('{"ev":"done"')]
            all_lines += [json.dumps({"ev": "crash", "msg": "panic in library goroutine: " + msg}), '{"ev":"done"}']
            remaining = remaining[len(starts):]
            crashes += 1
            if not remaining:
                break
            if crashes >= 8:
                log("  note: %d crashes; %d cases not run" % (crashes, len(remaining)))
                break
            continue
        vlib.go_must_run(code if code != 0 else 1, output, what)
    return all_lines, wall_total, "\n".join(outputs)


def cb_replay(cases, **kw):
    return _replay(CB_OVERLAY, "TestVerifCb", "C10 replay", cases, "VERIF-CB", crash_ok=True, **kw)


def iso_replay(cases, **kw):
    return _replay(ISO_OVERLAY, "TestVerifCbIso", "C09 callback isolation replay", cases, "VERIF-CBISO", **kw)


def opt_replay(cases, **kw):
    return _replay(OPT_OVERLAY, "TestVerifOpt", "C16 replay", cases, "VERIF-OPT", **kw)


def validate(module, lines, *, nproc=4, timeout=900):
    return vlib.validate_traces(module, module + ".cfg", lines, nproc=nproc, timeout=timeout, stack="128m")


def index_cases(lines):
    idx, cur = {}, None
    for ln in lines:
        if ln.startswith('{"ev":"case"'):
            c = json.loads(ln)
            cur = c["id"]
            idx[cur] = (c, [ln])
        elif cur is not None:
            idx[cur][1].append(ln)
    return idx


def race_reports(output):
    """Summarise `go test -race` reports: list of (first eino frame of the two accesses)."""
    reps = []
    for block in output.split("WARNING: DATA RACE")[1:]:
        frames = []
        for ln in block.split("=================="):
            pass
        for ln in block.splitlines():
            ln = ln.strip()
            if ln.startswith("/") and "/eino/" not in ln and "zz_verif" not in ln:
                pass
            if ("internal/callbacks/" in ln or "/compose/" in ln) and ".go:" in ln and "zz_verif" not in ln:
                frames.append(ln.split("/")[-1].split(" ")[0])
        key = tuple(frames[:2])
        if key and key not in reps:
            reps.append(key)
    return reps
