"""Streams-family pipeline (C08, C19): TLC-enumerated reader trees / histories / graph shapes -> real runs -> TLC trace validation."""
import concurrent.futures
import hashlib
import json
import os
import random
import re
import sys
import time

sys.path.insert(0, os.path.dirname(os.path.abspath(__file__)))
import vlib
from vlib import log, Inconclusive

SCHEMA_OVERLAY = {"schema/zz_verif_streams_test.go": os.path.join(vlib.HARNESS, "schema", "zz_verif_streams_test.go")}


def cfg_consts(consts):
    def val(v):
        if isinstance(v, bool):
            return "TRUE" if v else "FALSE"
        if isinstance(v, str):
            return '"%s"' % v
        if isinstance(v, (set, frozenset, list, tuple)):
            return "{" + ", ".join(val(x) for x in sorted(v)) + "}"
        return str(v)
    return "CONSTANTS\n" + "".join("  %s = %s\n" % (k, val(v)) for k, v in consts.items())


# ------------------------------------------------------------------------------------------------ reader-tree shapes

def shape_desc(nodes):
    def d(i):
        n = nodes[i - 1]
        k = n["k"]
        if k in ("pipe", "array"):
            return "%s%d" % (k[0], i)
        if k == "child":
            return "%s.%d" % (d(n["src"][0]), n["idx"])
        if k == "copy":
            return "copy%d(%s)" % (n["n"], d(n["src"][0]))
        if k == "conv":
            return "%s(%s)" % ("skip" if n["skip"] else "conv", d(n["src"][0]))
        return "merge(%s)" % ",".join(d(s) for s in n["src"])
    used = {s for n in nodes for s in n["src"]}
    return " | ".join(d(i + 1) for i, n in enumerate(nodes) if n["k"] != "copy" and (i + 1) not in used)


def kinds_of(nodes):
    ks = sorted({("skip" if n["k"] == "conv" and n["skip"] else n["k"]) for n in nodes if n["k"] not in ("pipe", "child")})
    return "+".join(ks) if ks else "pipe"


def gen_shapes(max_roots, max_ops, max_nodes, *, max_fan=3, max_depth=2, arrays=True, big_merge=(), timeout=300):
    consts = {"MaxRoots": max_roots, "MaxOps": max_ops, "MaxDepth": max_depth, "MaxFan": max_fan, "MaxNodes": max_nodes,
              "AllowArray": arrays, "BigMerge": list(big_merge)}
    cfg = cfg_consts(consts) + "INIT GenInit\nNEXT GenNext\nINVARIANT Emit\nCHECK_DEADLOCK FALSE\n"
    run = vlib.tlc("StreamsGen", "gen.cfg", files={"gen.cfg": cfg}, workers=2, timeout=timeout)
    vlib.tlc_must_pass(run, "reader-tree shape generation")
    seen, out = set(), []
    for (js,) in [t for t in run.tagged("CASE") if len(t) == 1]:
        if js in seen:
            continue
        seen.add(js)
        sh = json.loads(js)
        sh["desc"] = shape_desc(sh["nodes"])
        sh["id"] = "s" + hashlib.sha1(sh["desc"].encode()).hexdigest()[:6]
        sh["nops"] = sum(1 for n in sh["nodes"] if n["k"] in ("copy", "conv", "merge"))
        out.append(sh)
    out.sort(key=lambda s: (s["nops"], len(s["nodes"]), s["desc"]))
    return out, run


def trees_file(shapes):
    return "\n".join(json.dumps({"id": s["id"], "nodes": s["nodes"]}, separators=(",", ":")) for s in shapes) + "\n"


MC_INV = ["RuleHolds", "ClosedOnce", "SourceClosed", "Quiesced", "AtEOFComplete"]


def mc_cfg(consts):
    consts = dict({"SplitCount": False}, **consts)
    return cfg_consts(consts) + "SPECIFICATION Spec\n" + "".join("INVARIANT %s\n" % i for i in MC_INV)


def model_check(shapes, consts, *, workers=4, timeout=600, simulate=None, depth=None, seed=None):
    """Impl => P: every interleaving of the mechanism model on every given tree satisfies the C08 rule; no deadlock."""
    run = vlib.tlc("Streams", "mc.cfg", files={"mc.cfg": mc_cfg(consts), "trees.ndjson": trees_file(shapes)}, workers=workers,
                   timeout=timeout, heap="8g", simulate=simulate, depth=depth, seed=seed, keep_stdout=False)
    return run


# ------------------------------------------------------------------------------------------------ cases

def gen_seq_cases(shapes, consts, *, num, depth, seed, timeout=300, workers=2):
    cfg = cfg_consts(dict({"SplitCount": False}, **consts)) + "INIT SInit\nNEXT SNext\nINVARIANT Emit\nCHECK_DEADLOCK FALSE\n"
    run = vlib.tlc("StreamsSeq", "seq.cfg", files={"seq.cfg": cfg, "trees.ndjson": trees_file(shapes)}, workers=workers, timeout=timeout,
                   simulate="num=%d" % num, depth=depth, seed=seed)
    vlib.tlc_must_pass(run, "sequential history generation")
    seen, out = set(), []
    for (js,) in [t for t in run.tagged("CASE") if len(t) == 1]:
        if js in seen:
            continue
        seen.add(js)
        c = json.loads(js)
        out.append({"id": "q%d-%s" % (len(out), c["shape"]), "mode": "seq", "shape": c["shape"], "tree": c["tree"], "ops": c["ops"], "seed": 0, "pclose": 0})
    return out, run


def concretize(nodes, rnd, caps, max_items, err_frac=0.5):
    tree = json.loads(json.dumps(nodes))
    for i, n in enumerate(tree):
        if n["k"] in ("pipe", "array"):
            cnt = rnd.randint(0, max_items)
            e = rnd.randint(1, cnt) if cnt and n["k"] == "pipe" and rnd.random() < err_frac else 0
            n["items"] = [-((i + 1) * 10 + j) if j == e else (i + 1) * 10 + j for j in range(1, cnt + 1)]
            if n["k"] == "pipe":
                n["cap"] = caps[rnd.randrange(len(caps))]
    return tree


def conc_cases(shapes, rnd, count, *, caps=(0, 1, 2), max_items=3, prefix="c"):
    """Concurrent-driver cases: shapes round-robin (every shape is driven), capacities / items / close propensity seeded."""
    out = []
    order = list(shapes)
    rnd.shuffle(order)
    for i in range(count):
        sh = order[i % len(order)]
        out.append({"id": "%s%d-%s" % (prefix, i, sh["id"]), "mode": "conc", "shape": sh["id"], "tree": concretize(sh["nodes"], rnd, caps, max_items),
                    "ops": [], "seed": rnd.randrange(1 << 30), "pclose": rnd.choice([0, 1, 2, 4])})
    return out


def merge_close_cases(reps=15):
    """Directed sequential histories on MergeStreamReaders of k pipes with sources of different lengths: a short source that is not the
    last one sends one item and closes; every other source sends one item; the reader receives all of them (the short source's EOF gets
    consumed along the way -- by the runtime's random select in a fraction of the repetitions, hence `reps`), one more round, then the
    merged reader is closed early: every remaining writer must be told on its next send (WriterTold / SourceClosedOnce in StreamsObs,
    a linearization in StreamsLin).  Every operation is non-blocking in the model (capacity >= 2); what must come back is decided by TLC."""
    out = []
    for k in (2, 3):
        for short in range(1, k):                                  # 1-based pipe id of the short source, never the last
            for cap in (2, 3):
                tree = [{"k": "pipe", "src": [], "cap": cap, "items": ([i * 10 + 1] if i == short else [i * 10 + 1, i * 10 + 2, i * 10 + 3]),
                         "n": 0, "idx": 0, "skip": 0} for i in range(1, k + 1)]
                tree.append({"k": "merge", "src": list(range(1, k + 1)), "cap": 0, "items": [], "n": 0, "idx": 0, "skip": 0})
                leaf = k + 1
                others = [i for i in range(1, k + 1) if i != short]
                ops = [{"a": short, "op": "send"}, {"a": short, "op": "closeSend"}]
                ops += [{"a": j, "op": "send"} for j in others]
                ops += [{"a": leaf, "op": "recv"}] * k
                ops += [{"a": others[-1], "op": "send"}, {"a": leaf, "op": "recv"}, {"a": leaf, "op": "close"}]
                ops += [{"a": j, "op": "send"} for j in others]      # must be told: the harness stops a writer that was told
                ops += [{"a": j, "op": "closeSend"} for j in others]
                for r in range(reps):
                    out.append({"id": "mc%d-%d-%d-%d" % (k, short, cap, r), "mode": "seq", "shape": "mergeclose", "tree": tree, "ops": ops,
                                "seed": 0, "pclose": 0})
    return out


def _node(k, src=(), cap=0, items=(), n=0, idx=0, skip=0):
    return {"k": k, "src": list(src), "cap": cap, "items": list(items), "n": n, "idx": idx, "skip": skip}


def wide_merge_cases(rnd, conc_reps=5):
    """Merges of 4, 5, 6 and 7 pipes (5 is the largest static select of schema/select.go, 6 the first reflect.Select): one directed
    sequential history per width (every source sends one item, everything is received, writers close, EOF) and seeded concurrent cases.
    A Recv that never returns is a `hang` line (per-case watchdog), which no rule accepts."""
    out = []
    for k in (4, 5, 6, 7):
        def tree(cap, nitems):
            return [_node("pipe", cap=cap, items=[i * 10 + j for j in range(1, nitems + 1)]) for i in range(1, k + 1)] + \
                   [_node("merge", src=range(1, k + 1))]
        leaf = k + 1
        ops = [{"a": i, "op": "send"} for i in range(1, k + 1)] + [{"a": leaf, "op": "recv"}] * k
        ops += [{"a": i, "op": "closeSend"} for i in range(1, k + 1)] + [{"a": leaf, "op": "recv"}, {"a": leaf, "op": "close"}]
        out.append({"id": "wm%d-seq" % k, "mode": "seq", "shape": "merge%d" % k, "tree": tree(1, 1), "ops": ops, "seed": 0, "pclose": 0})
        for r in range(conc_reps):
            out.append({"id": "wm%d-c%d" % (k, r), "mode": "conc", "shape": "merge%d" % k, "tree": tree(rnd.choice([0, 1]), 2 if k <= 5 and r % 2 else 1),
                        "ops": [], "seed": rnd.randrange(1 << 30), "pclose": rnd.choice([0, 0, 1])})
    return out


def precopy_cases(rnd, reps=3):
    """"Read k items, then Copy(n), then read the copies" on array-backed, pipe-backed and convert-wrapped sources (copy node idx = k):
    the pre-reader's calls are logged at the source reader's node id during construction, the copies are driven concurrently."""
    out = []
    for src in ("array", "conv(array)", "skip(array)", "pipe", "conv(pipe)"):
        for k in (1, 2):
            for n in (2, 3):
                for r in range(reps):
                    items = [11, 12, 13, 14] if "array" in src else [11, -12 if r == 1 else 12, 13, 14]
                    root = _node("array", items=items) if "array" in src else _node("pipe", cap=rnd.choice([1, 2]), items=items)
                    tree = [root]
                    if "(" in src:
                        tree.append(_node("conv", src=[1], skip=2 if src.startswith("skip") else 0))
                    top = len(tree)
                    tree.append(_node("copy", src=[top], n=n, idx=k))
                    tree += [_node("child", src=[top + 1], idx=i) for i in range(n)]
                    out.append({"id": "pc-%s-%d-%d-%d" % (src, k, n, r), "mode": "conc", "shape": "precopy:" + src, "tree": tree, "ops": [],
                                "seed": rnd.randrange(1 << 30), "pclose": rnd.choice([0, 0, 1])})
    return out


def array_alias_shapes():
    """Trees of array-backed streams only: a base (one array whose caller slice has spare capacity -- `cap` of an array node -- or an
    all-array merge of 3 / 5 one-item arrays, whose slice grew by append) is Copy()'d and every copy is merged, as the FIRST source, with
    its own array tail (one copy may stay a plain leaf).  -> list of (name, nodes-with-items)"""
    out = []
    for base in ("spare2", "spare5", "merge3", "merge5"):
        for n in (2, 3):
            for plain in (False, True):
                tree = []
                if base.startswith("spare"):
                    tree.append(_node("array", cap=int(base[5:]), items=[11, 12, 13]))
                else:
                    m = int(base[5:])
                    tree += [_node("array", items=[i * 10 + 1]) for i in range(1, m + 1)]
                    tree.append(_node("merge", src=range(1, m + 1)))
                top = len(tree)
                tree.append(_node("copy", src=[top], n=n))
                kids = list(range(top + 2, top + 2 + n))
                tree += [_node("child", src=[top + 1], idx=i) for i in range(n)]
                for j, kid in enumerate(kids):
                    if plain and j == n - 1:
                        continue
                    t = len(tree) + 1
                    tree.append(_node("array", items=[t * 10 + 1] if j % 2 == 0 else [t * 10 + 1, t * 10 + 2]))
                    tree.append(_node("merge", src=[kid, t]))
                out.append(("%s-copy%d%s" % (base, n, "-plain" if plain else ""), tree))
    return out


def array_alias_cases(rnd, reps=2):
    """Directed cases on the array-only copy-then-merge trees: every tree is built completely (all merges exist) before the first Recv;
    one sequential history (every leaf read to EOF, leaves in seeded order) and `reps` concurrent drivers per tree."""
    out = []
    for name, tree in array_alias_shapes():
        used = {s for nd in tree for s in nd["src"]}
        leaves = [i + 1 for i, nd in enumerate(tree) if nd["k"] != "copy" and (i + 1) not in used]
        order = list(leaves)
        rnd.shuffle(order)
        ops = []
        for a in order:
            ops += [{"a": a, "op": "recv"}] * 8 + [{"a": a, "op": "close"}]
        out.append({"id": "aa-%s-seq" % name, "mode": "seq", "shape": "arrayalias", "tree": tree, "ops": ops, "seed": 0, "pclose": 0})
        for r in range(reps):
            out.append({"id": "aa-%s-c%d" % (name, r), "mode": "conc", "shape": "arrayalias", "tree": tree, "ops": [],
                        "seed": rnd.randrange(1 << 30), "pclose": 0})
    return out


def convert_panic_shapes():
    """Merges with a StreamReaderWithConvert source whose convert function panics on its k-th call (n of the conv node); the convert sits
    directly under the merge or below a second (key-mapping like) convert.  -> list of (name, nodes)"""
    out = []
    for k in (1, 2):
        out.append(("panic%d+pipe" % k, [_node("pipe"), _node("pipe"), _node("conv", src=[1], n=k), _node("merge", src=[2, 3])]))
        out.append(("key(panic%d)+array" % k, [_node("pipe"), _node("array"), _node("conv", src=[1], n=k), _node("conv", src=[3]),
                                                _node("merge", src=[2, 4])]))
    out.append(("skip-panic2+conv", [_node("pipe"), _node("pipe"), _node("conv", src=[1], n=2, skip=2), _node("conv", src=[2]),
                                     _node("merge", src=[3, 4])]))
    return out


def convert_panic_cases(rnd, reps=4):
    """Concurrent drivers on the convert-panic trees: the panicking source has more items than its pipe holds; the reader reads to EOF
    (pclose 0: the merged stream must end although a source panicked) or closes early; the writer must be released either way."""
    out = []
    for name, nodes in convert_panic_shapes():
        for r in range(reps):
            tree = json.loads(json.dumps(nodes))
            for i, n in enumerate(tree):
                if n["k"] == "pipe":
                    n["cap"] = rnd.choice([0, 0, 1])
                    n["items"] = [(i + 1) * 10 + j for j in range(1, (4 if i == 0 else rnd.choice([1, 2])) + 1)]
                elif n["k"] == "array":
                    n["items"] = [(i + 1) * 10 + 1]
            out.append({"id": "cp-%s-%d" % (name, r), "mode": "conc", "shape": "convpanic", "tree": tree, "ops": [],
                        "seed": rnd.randrange(1 << 30), "pclose": 0 if r % 2 == 0 else 1})
    return out


def remerge_cases(rnd, reps=12):
    """Re-merge of a partly drained merged reader: inner = merge of 2-3 pipes, a short source that is not the last one sends its only item
    and closes, the others send one item each, the inner reader is read (construction-time script `pre`, logged like every call) until
    the items are out -- the short source's end is observed by the inner select in a fraction of the repetitions -- and is THEN passed to
    MergeStreamReaders again together with another source; the outer reader and the remaining writers are driven concurrently."""
    out = []
    for k in (2, 3):
        for short in range(1, k):
            for tail in ("pipe", "array"):
                for r in range(reps):
                    tree = [_node("pipe", cap=3, items=[i * 10 + 1] if i == short else [i * 10 + 1, i * 10 + 2, i * 10 + 3]) for i in range(1, k + 1)]
                    tree.append(_node("merge", src=range(1, k + 1)))
                    inner = k + 1
                    tree.append(_node("pipe", cap=rnd.choice([0, 1]), items=[(k + 2) * 10 + 1, (k + 2) * 10 + 2]) if tail == "pipe"
                                else _node("array", items=[(k + 2) * 10 + 1]))
                    tree.append(_node("merge", src=[inner, k + 2]))
                    others = [i for i in range(1, k + 1) if i != short]
                    ops = [{"a": short, "op": "send"}, {"a": short, "op": "closeSend"}] + [{"a": j, "op": "send"} for j in others]
                    ops += [{"a": inner, "op": "recv"}] * k
                    ops += [{"a": others[-1], "op": "send"}, {"a": inner, "op": "recv"}]
                    out.append({"id": "rm%d-%d-%s-%d" % (k, short, tail, r), "mode": "conc", "shape": "remerge", "tree": tree, "ops": [],
                                "seed": rnd.randrange(1 << 30), "pclose": 0 if r % 3 else 1, "pre": [{"at": k + 3, "ops": ops}]})
    return out


def prearray_cases(rnd, reps=3):
    """An array-backed stream is read k times and THEN merged (array node idx = k): with a pipe (fold into a pre-filled stream), with
    another array (all-array merge), with a converted array."""
    out = []
    for k in (1, 2):
        for other in ("pipe", "array", "conv(array)"):
            for r in range(reps):
                tree = [_node("array", items=[11, 12, 13], idx=k)]
                if other == "pipe":
                    tree.append(_node("pipe", cap=rnd.choice([0, 1]), items=[21, 22]))
                    srcs = [1, 2]
                elif other == "array":
                    tree.append(_node("array", items=[21, 22], idx=(r % 2)))
                    srcs = [1, 2]
                else:
                    tree += [_node("array", items=[21, 22]), _node("conv", src=[2])]
                    srcs = [1, 3]
                if r % 2:
                    srcs = srcs[::-1]
                tree.append(_node("merge", src=srcs))
                out.append({"id": "pa-%d-%s-%d" % (k, other, r), "mode": "conc", "shape": "prearray", "tree": tree, "ops": [],
                            "seed": rnd.randrange(1 << 30), "pclose": 0})
    return out


def burst_cases(rounds, prefix="b"):
    """Barrier driver: Pipe(1) -> Copy(n), n in 2..4; per round every copy is closed by its own goroutine, all released together; then the
    writer sends once.  One `burst` line per round, judged by StreamsObs (ObsBurst)."""
    out = []
    for n in (2, 3, 4):
        tree = [_node("pipe", cap=1, items=[11]), _node("copy", src=[1], n=n)] + [_node("child", src=[2], idx=i) for i in range(n)]
        out.append({"id": "%s-copy%d" % (prefix, n), "mode": "burst", "shape": "burst-copy%d" % n, "tree": tree, "ops": [], "seed": 0, "pclose": 0,
                    "rounds": rounds})
    return out


# ------------------------------------------------------------------------------------------------ real runs

_RACE = re.compile(r"WARNING: DATA RACE\n(.*?)\n==================", re.S)


def race_reports(output, pkg_marker="/schema/", harness_marker="zz_verif_"):
    """-> list of (signature, in_library, text): top-most non-harness library frame of each race report."""
    reps = []
    for m in _RACE.finditer(output):
        txt = m.group(1)
        frames = re.findall(r"^\s+(\S+)\(\)\n\s+(\S+?):(\d+)", txt, re.M)
        lib = [(fn, f, ln) for fn, f, ln in frames if "cloudwego/eino/" in fn and harness_marker not in f and ".vf" not in fn.split("/")[-1]]
        inpkg = [x for x in lib if pkg_marker in x[1] or pkg_marker.strip("/") + "." in x[0]]
        if inpkg:
            fn, f, ln = inpkg[0]
            reps.append(("data-race:%s:%s" % (os.path.basename(f), fn.split("/")[-1]), True, txt[:3000]))
        else:
            reps.append(("data-race-outside", False, txt[:3000]))
    return reps


def run_schema(cases, *, race=False, repo=None, timeout=600):
    d = vlib.mkscratch("verif-str-")
    cf, of = os.path.join(d, "cases.ndjson"), os.path.join(d, "trace.ndjson")
    with open(cf, "w") as fh:
        for c in cases:
            fh.write(json.dumps(c, separators=(",", ":")) + "\n")
    code, output, wall = vlib.go_test("schema", SCHEMA_OVERLAY, "^TestVerifStreams$", race=race, timeout=timeout, repo=repo,
                                      args=["-test.v"], env={"VERIF_CASES": cf, "VERIF_OUT": of})
    races = race_reports(output) if race else []
    if code != 0 and not (race and races and "VERIF-STREAMS cases=%d" % len(cases) in output):
        vlib.go_must_run(code, output, "streams harness" + (" (-race)" if race else ""))
    if "VERIF-STREAMS cases=%d" % len(cases) not in output:
        raise Inconclusive("streams harness did not report all cases\n" + output[-3000:])
    return vlib.read_lines(of), races, wall, output


def index_cases(lines):
    idx, cur = {}, None
    for ln in lines:
        if ln.startswith('{"ev":"case"'):
            c = json.loads(ln)
            cur = c["id"]
            idx[cur] = (c, [ln])
        elif cur is not None:
            idx[cur][1].append(ln)
    return idx


# ------------------------------------------------------------------------------------------------ validation

def validate_obs(lines, *, module="StreamsObs", nproc=4, timeout=600):
    res = vlib.validate_traces(module, module + ".cfg", lines, nproc=nproc, timeout=timeout, stack="128m")
    return res


def _lin_chunk(module, chunk, timeout, max_rej):
    """Validate one chunk with the (non-total) linearizability spec; a stuck case is recorded and validation resumes behind it."""
    rejected, states, trans, runs = [], 0, 0, 0
    starts = [i for i, ln in enumerate(chunk) if ln.startswith('{"ev":"case"')]
    pos = 0
    while pos < len(chunk):
        part = chunk[pos:]
        run = vlib.tlc(module, module + ".cfg", files={"trace.ndjson": "\n".join(part) + "\n"}, workers=1, timeout=timeout, deque=True,
                       stack="128m", heap="3g", keep_stdout=False)
        runs += 1
        if run.timed_out:
            raise Inconclusive("linearizability validation timed out")
        hw = [t[0] for t in run.tagged("HW")]
        if run.error is not None or not hw:
            raise Inconclusive("linearizability validation: TLC failed (%s)\n%s" % (run.error, run.stdout[-3000:]))
        states += run.distinct
        trans += run.generated
        h = max(hw)
        if h == len(part) + 1:
            break
        stuck = pos + h - 1                       # 0-based index in chunk of the line that no behaviour could consume
        cs = max(s for s in starts if s <= stuck)
        nxt = [s for s in starts if s > stuck]
        cid = json.loads(chunk[cs])["id"]
        rejected.append((cid, stuck - cs, chunk[stuck] if stuck < len(chunk) else ""))
        if len(rejected) >= max_rej or not nxt:
            break
        pos = nxt[0]
    return rejected, states, trans, runs


def validate_lin(lines, *, module="StreamsLin", nproc=4, timeout=600, max_rej=12):
    chunks = vlib.split_cases(lines, nproc)
    if not chunks:
        return {"rejected": [], "states": 0, "transitions": 0, "jvm_runs": 0}
    with concurrent.futures.ThreadPoolExecutor(max_workers=nproc) as ex:
        res = list(ex.map(lambda ch: _lin_chunk(module, ch, timeout, max_rej), chunks))
    return {"rejected": [r for x in res for r in x[0]], "states": sum(x[1] for x in res), "transitions": sum(x[2] for x in res),
            "jvm_runs": sum(x[3] for x in res)}


# ------------------------------------------------------------------------------------------------ C19: streaming runs

LEAK_OVERLAY = {"compose/zz_verif_leak_test.go": os.path.join(vlib.HARNESS, "compose", "zz_verif_leak_test.go")}


def gen_run_shapes(mode, n, max_edges, branch=True, *, max_br=None, timeout=300, simulate=None, depth=None, seed=None):
    if max_br is None:
        max_br = 1 if mode == "wf" else 2         # several branches on one node: graph modes only (a workflow branch carries no data)
    cfg = cfg_consts({"N": n, "MaxEdges": max_edges, "Mode": mode, "AllowBranch": branch, "MaxBr": max_br}) + "INIT GenInit\nNEXT GenNext\nINVARIANT Emit\nCHECK_DEADLOCK FALSE\n"
    run = vlib.tlc("StreamRun", "rgen.cfg", files={"rgen.cfg": cfg}, workers=2, timeout=timeout, simulate=simulate, depth=depth, seed=seed)
    vlib.tlc_must_pass(run, "streaming-run scenario generation (%s, %d nodes)" % (mode, n))
    seen, out = set(), []
    for (js,) in [t for t in run.tagged("CASE") if len(t) == 1]:
        if js not in seen:
            seen.add(js)
            out.append(json.loads(js))
    return out, run


def is_chain(sc):
    if sc["branch"]:
        return False
    outs, ins = {}, {}
    for a, b in sc["edges"]:
        outs[a] = outs.get(a, 0) + 1
        ins[b] = ins.get(b, 0) + 1
    return all(v == 1 for v in outs.values()) and all(v == 1 for v in ins.values())


def branch_deco(b, rnd):
    """workflow data mapping of the branch targets: the selected one maps the branch source (bdata), both map the graph input, or
    neither takes data from any node (bnone: static value only)"""
    r = rnd.random()
    return dict(b, pick=rnd.randrange(2), pre=rnd.choice([0, 1, 1]), bdata=r < 0.4, bnone=r >= 0.65)


def decorate_run(shapes, rnd, *, prefix):
    """Secondary dimensions of a streaming-run scenario, spread deterministically by the seeded generator."""
    out = []
    for i, sh in enumerate(shapes):
        nodes = []
        for name, kind in zip(sh["nodes"], sh["kinds"]):
            nodes.append({"name": name, "kind": kind, "cap": rnd.choice([0, 0, 1]), "k": rnd.choice([1, 2, 3]),
                          "okey": sh["mode"] != "wf" and rnd.random() < 0.25, "err": 0, "pan": 0, "cancel": False})
        sc = {"id": "%s%d" % (prefix, i), "mode": sh["mode"], "nodes": nodes, "edges": sh["edges"],
              "branch": [branch_deco(b, rnd) for b in sh["branch"]],
              "handler": rnd.choice(["none", "none", "close", "read1", "drain"]),
              "read": rnd.choice([-1, 0, 0, 1, 1] if sh["branch"] else [-1, -1, 0, 1, 2]), "experr": False}
        # fan-in at END of >= 2 streaming sources: half of these get sources of different lengths and a caller that stops after 1-2
        # chunks, so that a short source's EOF is consumed by the merged reader before the early Close
        ends = [a for a, b in sh["edges"] if b == "end"]
        streaming = [n for n in nodes if n["name"] in ends and n["kind"] in ("S", "T")]
        if len(streaming) >= 2 and rnd.random() < 0.5:
            short = rnd.choice(streaming)
            for n in streaming:
                n["k"] = 1 if n is short else 3
                n["cap"] = rnd.choice([0, 1])
            sc["read"] = rnd.choice([1, 2, 2])
            sc["handler"] = rnd.choice(["none", "none", "close"])
        # several branches on one node: most of the time they select the SAME target (when their end sets overlap), the node produces more
        # chunks than the buffers hold and the caller stops early, so that a copy routed twice to one successor must be released
        if len(sc["branch"]) >= 2:
            common = set(sc["branch"][0]["ends"])
            for b in sc["branch"][1:]:
                common &= set(b["ends"])
            if common and rnd.random() < 0.75:
                tgt = rnd.choice(sorted(common))
                for b in sc["branch"]:
                    b["pick"] = b["ends"].index(tgt)
            src = next(n for n in nodes if n["name"] == sc["branch"][0]["from"])
            src["k"] = rnd.choice([4, 6, 8])
            src["cap"] = rnd.choice([0, 1])
            sc["read"] = rnd.choice([0, 1, 2, 2, -1])
            sc["handler"] = rnd.choice(["none", "none", "close", "read1"])
        # convert panic inside a fan-in bridge: a streaming node whose only successor is END, END being a fan-in (>= 2 edges), returns a
        # convert-wrapped stream whose convert function panics on its pan-th chunk; more chunks than the pipe holds; the caller reads until
        # the error chunk (or EOF) and closes; no handler (a handler's copy would put a copy between the convert and the merge)
        outs = {}
        for a, b in sh["edges"]:
            outs.setdefault(a, []).append(b)
        nend = sum(1 for a, b in sh["edges"] if b == "end")
        brfrom = {b["from"] for b in sh["branch"]}
        cand = [n for n in nodes if n["kind"] == "S" and outs.get(n["name"]) == ["end"] and n["name"] not in brfrom]
        if nend >= 2 and cand and not sh["branch"] and rnd.random() < 0.08:
            p = rnd.choice(cand)
            p["pan"] = rnd.choice([1, 2])
            p["k"] = rnd.choice([4, 6])
            p["cap"] = rnd.choice([0, 0, 1])
            sc["handler"] = "none"
            sc["read"] = -1
            sc["experr"] = True
        # cancellation arriving while the LAST step completes: a node of maximal depth whose only successor is END cancels the caller's
        # context from inside its body; a stream-interested handler is registered; the caller stops early.  The run normally still returns
        # its stream (if it fails with the context error the scenario is a run-failed NOTE: outside the statement).
        if not sh["branch"] and sc["handler"] != "none" and not sc["experr"] and not any(n.get("pan") for n in nodes) and rnd.random() < 0.15:
            depth = {"start": 0}
            for a, b in sorted(sh["edges"], key=lambda e: (e[1] == "end", e[1], e[0])):
                pass
            order = ["start"] + sh["nodes"] + ["end"]
            for x in order[1:]:
                depth[x] = 1 + max([depth[a] for a, b in sh["edges"] if b == x] or [0])
            last = [n for n in nodes if outs.get(n["name"]) == ["end"] and depth[n["name"]] == depth["end"] - 1]
            if last and all(depth[a] == depth["end"] - 1 for a, b in sh["edges"] if b == "end"):
                c = rnd.choice(last)
                c["cancel"] = True
                if c["kind"] != "V":
                    c["k"], c["cap"] = rnd.choice([4, 6]), rnd.choice([0, 1])
                sc["read"] = rnd.choice([0, 1, 1])
        if is_chain(sh) and rnd.random() < 0.8:
            prods = [n for n in nodes if n["kind"] == "S"]
            if prods:
                p = rnd.choice(prods)
                p["err"] = rnd.randint(1, p["k"])
                sc["experr"] = True
        out.append(sc)
    return out


def run_leak(cases, *, repo=None, timeout=900):
    d = vlib.mkscratch("verif-leak-")
    cf, of = os.path.join(d, "cases.ndjson"), os.path.join(d, "trace.ndjson")
    with open(cf, "w") as fh:
        for c in cases:
            fh.write(json.dumps(c, separators=(",", ":")) + "\n")
    code, output, wall = vlib.go_test("compose", LEAK_OVERLAY, "^TestVerifLeak$", timeout=timeout, repo=repo, args=["-test.v"],
                                      env={"VERIF_CASES": cf, "VERIF_OUT": of})
    vlib.go_must_run(code, output, "leak harness")
    if "VERIF-LEAK cases=%d" % len(cases) not in output:
        raise Inconclusive("leak harness did not report all cases\n" + output[-3000:])
    return vlib.read_lines(of), wall
