"""Checks of the `pure` family: C12 (checkpoint serialisation round trip) and C14 (chunk concatenation).

Both are "self-contained function with rich case analysis" properties.  Pipeline (DESIGN 5 C12/C14, 8):
  1. model level   the case analysis of the code is transcribed into TLA+ operators (spec/Serialization.tla, spec/Concat.tla);
                   TLC checks the property-level law on the transcription over an enumerated abstract universe
                   (spec/SerGen.tla, spec/ConcatGen.tla) -- shapes carrying a named deviation of the code are exempted there --
                   and prints every abstract case
  2. replay        the Go harness materialises every case as a concrete value, calls the REAL function under recover and
                   records what happened in the same abstract vocabulary
  3. verdict       TLC validates every observation against the property-level law (spec/SerObs.tla, spec/ConcatObs.tla);
                   only a rejection there, reproduced by a second run of the same case, is a VIOLATION.  An observation that
                   satisfies the law but differs from the transcription is DRIFT (evidence, exit 0).
"""
import json
import os
import random
import time

import vlib
from vlib import log, Inconclusive

SER_OVERLAY = {"internal/serialization/zz_verif_ser_test.go": os.path.join(vlib.HARNESS, "internal/serialization/zz_verif_ser_test.go")}


def _repo():
    return os.environ.get("VERIF_REPO") or vlib.REPO


# ------------------------------------------------------------------------------------------------ C12

def _tlc_retry(module, name, cfg, timeout, workers):
    """one retry when the JVM dies for a reason that is not a verdict of the model checker (seen under heavy load)"""
    for attempt in (1, 2):
        run = vlib.tlc(module, name, files={name: cfg}, workers=workers, timeout=timeout, heap="4g")
        if run.error != "other" or attempt == 2:
            return run
        log("  note: TLC failed without a verdict on %s, retrying once\n%s" % (name, run.stdout[-800:]))
    return run


def ser_generate(cfg_name, consts, timeout, workers=4):
    cfg = "SPECIFICATION Spec\nCONSTANTS\n"
    for k, val in consts.items():
        if isinstance(val, (set, list, tuple)):
            cfg += "  %s = {%s}\n" % (k, ", ".join('"%s"' % x for x in sorted(val)))
        elif isinstance(val, str):
            cfg += '  %s = "%s"\n' % (k, val)
        else:
            cfg += "  %s = %s\n" % (k, val)
    cfg += "INVARIANT ModelLaw\nINVARIANT Emit\nCHECK_DEADLOCK FALSE\n"
    run = _tlc_retry("SerGen", cfg_name, cfg, timeout, workers)
    vlib.tlc_must_pass(run, "SerGen %s (law on the transcription)" % cfg_name)
    cases = [json.loads(c[0]) for c in run.tagged("CASE")]
    if len(cases) != run.distinct:
        raise Inconclusive("SerGen: %d CASE lines for %d distinct states" % (len(cases), run.distinct))
    cases.sort(key=lambda c: json.dumps(c["v"], sort_keys=True))
    for i, c in enumerate(cases):
        c["id"] = "s%d" % i
    return cases, run


def ser_replay(cases, *, variants=1, repo=None, timeout=600, seed=None):
    d = vlib.mkscratch("verif-ser-")
    cpath, opath = os.path.join(d, "cases.ndjson"), os.path.join(d, "obs.ndjson")
    with open(cpath, "w") as fh:
        for c in cases:
            rec = {"id": c["id"], "v": c["v"]}
            if c.get("intkind"):
                rec["intkind"] = c["intkind"]
            fh.write(json.dumps(rec) + "\n")
    env = {"VERIF_CASES": cpath, "VERIF_OUT": opath, "VERIF_VARIANTS": str(variants)}
    if seed is not None:
        env["VERIF_SEED"] = str(seed)
    code, out, wall = vlib.go_test("internal/serialization", SER_OVERLAY, "^TestVerifSer$", env=env, timeout=timeout, repo=repo or _repo())
    vlib.go_must_run(code, out, "serialization harness")
    return vlib.read_lines(opath), wall


def _collect(res, what):
    """BAD / DRIFT are printed as single strings "BAD|id|line|reason" (TLC wraps long tuples over several lines, which vlib's tuple
    parser would silently drop); the number of BAD lines must equal the counter the spec keeps."""
    stat = [0, 0, 0, 0, 0]
    bad, drift = [], []
    for run in res["runs"]:
        for s in run.tagged("STAT"):
            for i in range(5):
                stat[i] += int(s[i])
        for ln in run.stdout.splitlines():
            if ln.startswith('"BAD|') or ln.startswith('"DRIFT|'):
                parts = json.loads(ln).split("|", 3)
                (bad if parts[0] == "BAD" else drift).append((parts[1], int(parts[2]), parts[3]))
    if len(bad) != stat[4]:
        raise Inconclusive("%s: %d BAD lines parsed but the spec counted %d rejections" % (what, len(bad), stat[4]))
    res["bad"] = bad
    res["drift"] = drift
    res["stat"] = {"agrees_with_both_transcriptions": stat[0], "agrees_only_with_code_as_is": stat[1],
                   "agrees_only_with_proposed_repair": stat[2], "agrees_with_neither(DRIFT)": stat[3]}
    return res


def _sample_per_reason(bad, cap=150):
    """rejections to reproduce / report: at most `cap` per reason, first occurrences of every distinct reason first"""
    seen, first, rest = {}, [], []
    for b in bad:
        k = seen.get(b[1], 0)
        seen[b[1]] = k + 1
        if k == 0:
            first.append(b)
        elif k < cap:
            rest.append(b)
    return first + rest


def _ser_start(s):
    return s.startswith('{"ev":"ser"')


def ser_validate(lines, nproc=4, timeout=900):
    res = vlib.validate_traces("SerObs", "SerObs.cfg", lines, nproc=nproc, timeout=timeout, is_start=_ser_start, heap="3g")
    _collect(res, "SerObs")
    return res


def ser_selftest(lines):
    """binding demonstration: a recorded observation with one corrupted field must be rejected by SerObs"""
    for ln in lines:
        o = json.loads(ln)
        if o["enc"] == "ok" and o["dec"] == "ok" and o["deq"] and o["teq"] and o["in"]["k"] != "leaf":
            good = json.dumps(o)
            o1 = json.loads(good)
            o1["out"]["t"] = ["ptr"] + o1["out"]["t"]          # the value that came back has another dynamic type
            o2 = json.loads(good)
            o2["deq"] = False                                    # concrete deep-equality flag
            o3 = json.loads(good)
            o3["dec"] = "panic"
            o3["pclass"] = "other"
            res = ser_validate([good, json.dumps(o1), json.dumps(o2), json.dumps(o3)], nproc=1)
            got = sorted(b[1] for b in res["bad"])
            if got != [2, 3, 4]:
                raise Inconclusive("SerObs self-test: corrupted observations not rejected as expected (rejected lines %s)" % got)
            return {"corrupted_lines_rejected": 3, "uncorrupted_line_accepted": 1}
    return {"skipped": "no accepted round trip in this run"}


def cat_selftest(lines):
    """binding demonstration: corrupted / truncated observations must be rejected by ConcatObs"""
    for ln in lines:
        o = json.loads(ln)
        if o["kind"] == "msg" and len(o["chunks"]) == 3 and o["full"][0]["o"] == "ok" and o["full"][0]["v"]["content"] != "" and o["path"] == "cm":
            good = json.dumps(o)
            o1 = json.loads(good)
            for f in o1["full"]:
                f["v"]["content"] = f["v"]["content"][::-1] + "#"  # text out of order, consistently
            for sp in o1["splits"]:
                sp["res"]["v"]["content"] = o1["full"][0]["v"]["content"]
            o2 = json.loads(good)
            o2["splits"] = o2["splits"][:-1]                     # one split observation dropped
            o3 = json.loads(good)
            o3["full"][2]["v"]["content"] += "x"                  # third repeat differs
            o4 = json.loads(good)
            o4["splits"][0]["res"] = {"o": "err", "v": o4["splits"][0]["res"]["v"], "msg": "x"}
            o5 = json.loads(good)
            o5["sh"]["in"][-1][0] = "0" * 16                     # an input chunk looks different after the last call
            o6 = json.loads(good)
            o6["sh"]["whole"][1] = "ok:" + "0" * 16              # the second whole call on the same values gave something else
            res = cat_validate([good, json.dumps(o1), json.dumps(o2), json.dumps(o3), json.dumps(o4), json.dumps(o5), json.dumps(o6)], nproc=1)
            got = sorted((b[1], b[2].split(":")[0]) for b in res["bad"])
            if got != [(2, "rule"), (3, "incomplete-observation"), (4, "nondeterministic"), (5, "rechunk"), (6, "impure"), (7, "impure")]:
                raise Inconclusive("ConcatObs self-test: corrupted observations not rejected as expected: %s" % got)
            return {"corrupted_lines_rejected": 6, "uncorrupted_line_accepted": 1}
    return {"skipped": "no suitable observation in this run"}


# ---- C12, channel-restore clause (checkpoint -> bytes -> checkpoint -> channel.load)

CKPT_OVERLAY = {"compose/zz_verif_ckpt_test.go": os.path.join(vlib.HARNESS, "compose/zz_verif_ckpt_test.go")}


def ckpt_check(repo):
    """returns (stats, bad[(id, line, reason)], lines): every channel state of spec/CkptGen.tla and the channels of a real interrupted DAG run
    with a skipped branch, through a byte-only store and channel.load; judged by spec/CkptObs.tla"""
    run = vlib.tlc("CkptGen", "CkptGen.cfg", workers=2, timeout=300, heap="2g")
    vlib.tlc_must_pass(run, "CkptGen (restore path is the identity on the model)")
    cases = [json.loads(c[0]) for c in run.tagged("CASE")]
    cases.sort(key=lambda c: json.dumps(c, sort_keys=True))
    d = vlib.mkscratch("verif-ckpt-")
    cpath, opath = os.path.join(d, "cases.ndjson"), os.path.join(d, "obs.ndjson")
    with open(cpath, "w") as fh:
        for i, c in enumerate(cases):
            fh.write(json.dumps({"id": "ch%d" % i, "ch": c["ch"]}) + "\n")
    code, out, wall = vlib.go_test("compose", CKPT_OVERLAY, "^TestVerifCkpt$", env={"VERIF_CASES": cpath, "VERIF_OUT": opath}, timeout=600, repo=repo)
    vlib.go_must_run(code, out, "checkpoint channel harness")
    lines = vlib.read_lines(opath)
    if len(lines) < len(cases) + 3:
        raise Inconclusive("checkpoint harness wrote %d lines for %d cases + a real run" % (len(lines), len(cases)))
    res = vlib.validate_traces("CkptObs", "CkptObs.cfg", lines, nproc=1, timeout=300, is_start=lambda s: s.startswith('{"ev":"ckpt"'), heap="2g")
    _collect(res, "CkptObs")
    # self-test: a restored channel with the skipped flag flipped must be rejected
    o = json.loads(lines[0])
    o["restored"]["skipped"] = not o["restored"]["skipped"]
    st = vlib.validate_traces("CkptObs", "CkptObs.cfg", [lines[0], json.dumps(o)], nproc=1, timeout=120, is_start=lambda s: s.startswith('{"ev":"ckpt"'), heap="2g")
    _collect(st, "CkptObs self-test")
    if [b[1] for b in st["bad"]] != [2]:
        raise Inconclusive("CkptObs self-test: corrupted line not rejected")
    stats = {"channel_states": len(cases), "tlc_distinct": run.distinct, "tlc_generated": run.generated, "observations": len(lines),
             "real_run_channels": len(lines) - len(cases), "trace_validation_states": res["states"], "wall_go_s": round(wall, 1)}
    return stats, res["bad"], lines


def ser_skeleton(a):
    if a["k"] == "map":     # entries are unordered: the harness lists them sorted by key
        ents = sorted(([k["kt"], k["kv"], k.get("ka", ""), k.get("kb", "")], ser_skeleton(v)) for k, v in zip(a["keys"], a["kids"]))
        return [a["k"], a["nil"], len(a["t"]), ents]
    return [a["k"], a["nil"], len(a["t"]), [ser_skeleton(k) for k in a["kids"]]]


def ser_sigs(reason):
    """signatures of a rejection = the reason computed by SerObs (kind of failure / what was lost), one per lost aspect:
    'loss:a+b' -> ['loss/a', 'loss/b'] so that a known loss never hides a different one in the same value"""
    kind, _, what = reason.partition(":")
    return [kind + "/" + w for w in what.split("+")] if what else [kind]


def c12(tier, repo=None):
    t0 = time.time()
    repo = repo or _repo()
    log("[C12] tier=%s seed=%d repo=%s" % (tier, vlib.SEED, repo))
    rnd = random.Random(vlib.SEED * 104729 + 12)
    gens = []
    if tier == "quick":
        plan = [("SerGen_q.cfg", {"MaxDepth": 2, "MaxPtr": 2, "Bases": ["int", "named", "unreg"], "ErrDepth": 1, "Fx": "asis",
                                  "KeyKinds": ["string", "int", "bool", "named", "any", "skey", "okey"]}, 400)]
        variants, limit = 2, None
    else:
        plan = [("SerGen_t2.cfg", {"MaxDepth": 2, "MaxPtr": 2, "Bases": ["int", "string", "named", "unreg"], "ErrDepth": 1, "Fx": "asis",
                                   "KeyKinds": ["string", "int", "bool", "named", "any", "skey", "okey"]}, 900),
                ("SerGen_t3.cfg", {"MaxDepth": 3, "MaxPtr": 1, "Bases": ["int"], "ErrDepth": 0, "Fx": "asis",
                                   "KeyKinds": ["string", "any", "okey"]}, 1500),
                ("SerGen_t3p.cfg", {"MaxDepth": 3, "MaxPtr": 2, "Bases": ["int"], "ErrDepth": 0, "Fx": "asis",
                                    "KeyKinds": ["string"]}, 1500)]
        variants, limit = 2, 400000
    cases, states, trans, seen = [], 0, 0, set()
    for name, consts, to in plan:
        cs, run = ser_generate(name, consts, to)
        # the same universe with the proposed repair switched on in the transcription (model-level check only)
        fx_cfg = dict(consts, Fx="fixed")
        cs2, run2 = ser_generate(name.replace(".cfg", "_fixed.cfg"), fx_cfg, to)
        states += run.distinct + run2.distinct
        trans += run.generated + run2.generated
        gens.append({"cfg": name, "constants": consts, "shapes": len(cs), "tlc_distinct": run.distinct, "tlc_generated": run.generated,
                     "wall_s": round(run.wall_s, 1), "wall_s_fixed_variant": round(run2.wall_s, 1)})
        log("  %s: %d shapes, law checked on the transcription as coded and as repaired (%d+%d distinct states, %.0fs+%.0fs)" % (
            name, len(cs), run.distinct, run2.distinct, run.wall_s, run2.wall_s))
        for c in cs:
            key = json.dumps(c["v"], sort_keys=True)
            if key not in seen:
                seen.add(key)
                c["id"] = "%s-%s" % (name.split(".")[0].split("_")[1], c["id"])
                cases.append(c)
    exhaustive = True
    if limit and len(cases) > limit:
        rnd.shuffle(cases)
        cases = cases[:limit]
        exhaustive = False
    lines, wall_go = ser_replay(cases, variants=variants, repo=repo)
    log("  replayed %d shapes x %d leaf/kind variants on the real Marshal/Unmarshal: %d observations, %.0fs" % (
        len(cases), variants, len(lines), wall_go))
    if len(lines) != len(cases) * variants:
        raise Inconclusive("harness wrote %d observations for %d cases" % (len(lines), len(cases) * variants))
    # sanity of the materialisation: the value really built has the skeleton of the case
    by_id = {c["id"]: c for c in cases}
    obs = {}
    for ln in lines:
        o = json.loads(ln)
        obs[o["id"]] = o
        cid = o["id"].rsplit(".", 1)[0] if variants > 1 else o["id"]
        if ser_skeleton(o["in"]) != ser_skeleton(by_id[cid]["v"]):
            raise Inconclusive("harness built a different shape than case %s: %s" % (cid, ln[:600]))
    res = ser_validate(lines)
    log("  SerObs: %d lines validated (%d TLC states); transcription agreement %s" % (len(lines), res["states"], res["stat"]))
    bad = [(b[0], b[2]) for b in res["bad"]]
    verdict = vlib.Verdict("C12")
    ck_stats, ck_bad, ck_lines = ckpt_check(repo)
    log("  channel restore through a byte store: %d channel states + %d channels of a real interrupted DAG run, %d rejected" % (
        ck_stats["channel_states"], ck_stats["real_run_channels"], len(ck_bad)))
    if ck_bad:
        _, ck_bad2, ck_lines2 = ckpt_check(repo)          # reproduce
        again = {(b[0], b[2]) for b in ck_bad2}
        ck_obs = {json.loads(ln)["id"]: json.loads(ln) for ln in ck_lines}
        for cid, _, reason in [b for b in ck_bad if (b[0], b[2]) in again][:40]:
            verdict.violation(reason.replace(":", "/"), {"case": {"id": cid, "kind": "ckpt"}, "observation": ck_obs[cid]}, reason)
    confirmed = 0
    rerun = _sample_per_reason(bad)
    if bad:
        # reproduce: second run of the same cases with the same seed -> same rejection
        again_ids = sorted({(b[0].rsplit(".", 1)[0] if variants > 1 else b[0]) for b in rerun})
        lines2, _ = ser_replay([by_id[i] for i in again_ids], variants=variants, repo=repo)
        bad2 = {(b[0], b[2]) for b in ser_validate(lines2)["bad"]}
        for cid, reason in rerun:
            base = cid.rsplit(".", 1)[0] if variants > 1 else cid
            if (cid, reason) in bad2:
                confirmed += 1
                for sig in ser_sigs(reason):
                    verdict.violation(sig, {"case": {"id": base, "v": by_id[base]["v"]}, "observation": obs[cid]}, reason)
            else:
                log("  note: rejection of %s (%s) did not reproduce: not counted" % (cid, reason))
    code, n_new, n_known = verdict.finish(max_report=8)
    by_reason = {}
    for _, reason in bad:
        by_reason[reason] = by_reason.get(reason, 0) + 1
    # distinct non-trivial: distinct (type, nil pattern, outcome) among observations where both calls succeeded or a loss was detected
    nontriv = set()
    for o in obs.values():
        if o["enc"] == "ok":
            nontriv.add(json.dumps([ser_skeleton(o["in"]), o["in"]["t"], o["dec"]]))
    some = vlib.sample(sorted(obs.keys()), 3)
    states += ck_stats["tlc_distinct"]
    trans += ck_stats["tlc_generated"]
    cov = {"states": states, "transitions": trans, "traces_validated_against_impl": len(lines) + len(ck_lines), "evaluations": len(lines) + len(ck_lines),
           "distinct_nontrivial": len(nontriv), "channel_restore": dict(ck_stats, rejected=len(ck_bad)),
           "rule": "shapes = every value TLC reaches in spec/SerGen.tla by wrapping (ptr / nil ptr / slice / array / map per key kind / struct field / "
                   "interface position) inside the bounds listed under generators; each is materialised by reflection with seeded leaf values from a "
                   "per-kind boundary palette and seeded numeric kind for the token int, round-tripped through the real Marshal/Unmarshal, and the "
                   "observation validated by TLC against spec/SerObs.tla; distinct = distinct (shape skeleton, type, decode outcome); "
                   "non-trivial = Marshal succeeded (the value is claimed representable)",
           "samples": [obs[k] for k in some], "exhaustive": exhaustive, "generators": gens, "variants_per_shape": variants,
           "trace_validation_states": res["states"], "rejected": len(bad), "rejected_by_reason": by_reason, "rerun_for_reproduction": len(rerun), "confirmed": confirmed,
           "known_findings": n_known, "transcription_agreement": res["stat"], "drift": [list(d) for d in res["drift"][:20]],
           "selftest": ser_selftest(lines)}
    vlib.write_evidence("C12", tier, "model_checking", cov, assumptions=[
        "a panic of Marshal/Unmarshal is not 'returning an error': it is rejected; the refusal must come from Marshal: an error from Unmarshal after a "
        "successful Marshal means a written checkpoint that cannot be read back and is rejected (the nil interface at top level is not a value)",
        "leaf fidelity (numeric ranges, UTF-8, HTML-significant characters) is sampled by a boundary palette, not decided",
        "struct types of the family struct{F T; Z int}: a few are declared and registered through GenericRegister, the others are reflect.StructOf "
        "types entered into the registry maps directly (what GenericRegister does)",
        "named container types, channels, funcs, custom interface types and pointer-typed map keys are outside the enumerated universe"],
        wall_s=time.time() - t0, violations=n_new)
    log("[C12] %s: %d observations validated, %d rejected (%s), %d known, %.0fs" % (
        "VIOLATION" if code else "ok", len(lines), len(bad), by_reason, n_known, time.time() - t0))
    return code


# ------------------------------------------------------------------------------------------------ C14

CAT_OVERLAY = {"schema/zz_verif_concat_test.go": os.path.join(vlib.HARNESS, "schema/zz_verif_concat_test.go")}


def cat_generate(name, fams, maxlen, longfams, fx, timeout, workers=4):
    q = lambda xs: "{" + ", ".join('"%s"' % x for x in sorted(xs)) + "}"
    cfg = ("SPECIFICATION Spec\nCONSTANTS\n  Fams = %s\n  MaxLen = %d\n  LongFams = %s\n  Fx = \"%s\"\n"
           "INVARIANT ModelLaw\nINVARIANT CallOrderFree\nINVARIANT Emit\nCHECK_DEADLOCK FALSE\n" % (q(fams), maxlen, q(longfams), fx))
    run = _tlc_retry("ConcatGen", name, cfg, timeout, workers)
    vlib.tlc_must_pass(run, "ConcatGen %s (law on the transcription, %s)" % (name, fx))
    cases = [json.loads(c[0]) for c in run.tagged("CASE")]
    if len(cases) != run.distinct:
        raise Inconclusive("ConcatGen: %d CASE lines for %d distinct states" % (len(cases), run.distinct))
    cases.sort(key=lambda c: (c["fam"], len(c["chunks"]), json.dumps(c["chunks"], sort_keys=True)))
    for i, c in enumerate(cases):
        c["id"] = "%s%d" % (c["fam"], i)
    return cases, run


def cat_replay(cases, *, repo=None, timeout=900):
    d = vlib.mkscratch("verif-cat-")
    cpath, opath = os.path.join(d, "cases.ndjson"), os.path.join(d, "obs.ndjson")
    with open(cpath, "w") as fh:
        for c in cases:
            fh.write(json.dumps({"id": c["id"], "kind": c["kind"], "chunks": c["chunks"]}) + "\n")
    code, out, wall = vlib.go_test("schema", CAT_OVERLAY, "^TestVerifConcat$", env={"VERIF_CASES": cpath, "VERIF_OUT": opath},
                                   timeout=timeout, repo=repo or _repo())
    vlib.go_must_run(code, out, "concat harness")
    return vlib.read_lines(opath), wall


def cat_validate(lines, nproc=4, timeout=900):
    res = vlib.validate_traces("ConcatObs", "ConcatObs.cfg", lines, nproc=nproc, timeout=timeout,
                               is_start=lambda s: s.startswith('{"ev":"cat"'), heap="3g")
    _collect(res, "ConcatObs")
    return res


def cat_sig(reason):
    return reason.replace(":", "/")


ALL_FAMS = ["hdr", "calls", "calls3", "callsT", "callsTy", "calls2", "many", "meta", "extra", "extran", "list", "map", "nest", "mapi", "mapb", "mapm", "str", "int", "acc", "plain"]


def c14(tier, repo=None):
    t0 = time.time()
    repo = repo or _repo()
    log("[C14] tier=%s seed=%d repo=%s" % (tier, vlib.SEED, repo))
    rnd = random.Random(vlib.SEED * 15485863 + 14)
    if tier == "quick":
        plan = [("ConcatGen_q", ALL_FAMS, 3, ["hdr", "calls3", "callsTy", "many", "meta", "extra", "extran", "map", "nest", "mapi", "mapb", "mapm", "str", "int", "acc", "plain"], 600)]
        limit = None
    else:
        plan = [("ConcatGen_t", ALL_FAMS, 4, ["hdr", "calls3", "callsT", "callsTy", "many", "meta", "extra", "extran", "map", "nest", "mapi", "mapb", "mapm", "str", "int", "acc", "plain"], 1700)]
        limit = 100000
    cases, gens, states, trans = [], [], 0, 0
    for name, fams, maxlen, longf, to in plan:
        cs, run = cat_generate(name + ".cfg", fams, maxlen, longf, "asis", to)
        cs2, run2 = cat_generate(name + "_fixed.cfg", fams, maxlen, longf, "fixed", to)
        states += run.distinct + run2.distinct
        trans += run.generated + run2.generated
        fam_counts = {}
        for c in cs:
            fam_counts[c["fam"]] = fam_counts.get(c["fam"], 0) + 1
        gens.append({"cfg": name, "families": fam_counts, "max_len": maxlen, "long_families": longf, "tlc_distinct": run.distinct,
                     "wall_s": round(run.wall_s, 1), "wall_s_fixed_variant": round(run2.wall_s, 1)})
        log("  %s: %d chunk sequences %s; law checked on the transcription as coded (nil map values exempted) and as repaired (%.0fs+%.0fs)" % (
            name, len(cs), fam_counts, run.wall_s, run2.wall_s))
        have = {json.dumps([c["fam"], c["chunks"]], sort_keys=True) for c in cases}
        for c in cs:
            if json.dumps([c["fam"], c["chunks"]], sort_keys=True) not in have:
                c["id"] = name[-2:] + c["id"]
                cases.append(c)
    exhaustive = True
    if limit and len(cases) > limit:
        rnd.shuffle(cases)
        cases = cases[:limit]
        exhaustive = False
    lines, wall_go = cat_replay(cases, repo=repo)
    log("  replayed %d sequences on the real functions (every entry point, 3 repeats, every split): %d observation lines, %.0fs" % (
        len(cases), len(lines), wall_go))
    res = cat_validate(lines)
    log("  ConcatObs: %d lines validated (%d TLC states); transcription agreement %s" % (len(lines), res["states"], res["stat"]))
    by_id = {c["id"]: c for c in cases}
    bad = [(b[0], b[2]) for b in res["bad"]]
    verdict = vlib.Verdict("C14")
    confirmed = 0
    obs = {}
    for ln in lines:
        o = json.loads(ln)
        obs[o["id"] + "/" + o["path"]] = o
    rerun = _sample_per_reason(bad)
    if bad:
        again = sorted({b[0].split("/")[0] for b in rerun})
        lines2, _ = cat_replay([by_id[i] for i in again], repo=repo)
        bad2 = {}
        for b in cat_validate(lines2)["bad"]:
            bad2.setdefault(b[0], set()).add(b[2])
        for key, reason in rerun:
            # a nondeterministic function may be rejected for another reason the second time: any rejection of the same call confirms
            if key in bad2 and (reason in bad2[key] or reason.startswith("nondeterministic") or any(r.startswith("nondeterministic") for r in bad2[key])
                                or reason.startswith("panic") and any(r.startswith("panic") for r in bad2[key])):
                confirmed += 1
                verdict.violation(cat_sig(reason), {"case": by_id[key.split("/")[0]], "observation": obs[key]}, reason)
            else:
                log("  note: rejection of %s (%s) did not reproduce: not counted" % (key, reason))
    code, n_new, n_known = verdict.finish()
    by_reason = {}
    for _, reason in bad:
        by_reason[reason] = by_reason.get(reason, 0) + 1
    nontriv = set()
    for o in obs.values():
        if len(o["chunks"]) >= 2 and o["full"][0]["o"] == "ok":
            nontriv.add(json.dumps([o["kind"], o["chunks"]], sort_keys=True))
    some = vlib.sample(sorted(obs.keys()), 3)
    cov = {"states": states, "transitions": trans, "traces_validated_against_impl": len(lines), "evaluations": len(lines),
           "distinct_nontrivial": len(nontriv),
           "rule": "sequences = every chunk sequence TLC reaches in spec/ConcatGen.tla by AppendChunk over the family alphabets listed under generators "
                   "(text fragments are position tokens); each is materialised and run through every entry point (ConcatMessages, ConcatMessageStream, "
                   "internal.ConcatItems, a compose graph forcing stream->value conversion) 3 times plus once per split point (prefix, then result+rest); "
                   "one observation line per (sequence, entry point), validated by TLC against spec/ConcatObs.tla; distinct = distinct (kind, chunk sequence); "
                   "non-trivial = at least two chunks and the concatenation succeeded",
           "samples": [obs[k] for k in some], "exhaustive": exhaustive, "generators": gens,
           "trace_validation_states": res["states"], "rejected": len(bad), "rejected_by_reason": by_reason, "rerun_for_reproduction": len(rerun), "confirmed": confirmed,
           "known_findings": n_known, "transcription_agreement": res["stat"], "drift": [list(d) for d in res["drift"][:20]],
           "selftest": cat_selftest(lines)}
    vlib.write_evidence("C14", tier, "model_checking", cov, assumptions=[
        "outcome classes are value / error / panic; error texts are not compared (which failing key of a map is reported first depends on map iteration order)",
        "besides totality, determinism and the re-chunking law, the rule demands the field semantics named by the property record: text and tool-call "
        "arguments in arrival order, fragments merged by index and sorted by index, role/name/tool-call-id consistency, usage = maximum, finish reason = last, "
        "extras and map chunks merged per key; when an error is returned is not prescribed except for conflicting role/name/id and list length mismatch",
        "internal.ConcatItems is called under its documented precondition (more than one item); a single chunk is its own concatenation as in "
        "ConcatMessageStream and concatStreamReader",
        "user-registered concat functions are sampled by one associative function (vfAcc); MultiContent and LogProbs are not in the alphabet"],
        wall_s=time.time() - t0, violations=n_new)
    log("[C14] %s: %d observation lines validated, %d rejected (%s), %d known, %.0fs" % (
        "VIOLATION" if code else "ok", len(lines), len(bad), by_reason, n_known, time.time() - t0))
    return code


def _replay_verdict(prop, bad, sigs_of, case):
    verdict = vlib.Verdict(prop)
    for key, _, reason in bad:
        for sig in sigs_of(reason):
            verdict.violation(sig, case, reason)
    code, n_new, n_known = verdict.finish(max_report=0)
    for key, _, reason in bad:
        log("  replayed %s: rejected, %s" % (key, reason))
    if not bad:
        log("  replay: the observation is accepted now")
    if n_new:
        log("VIOLATION property=%s replay=%s" % (prop, case.get("_path", "")))
    return 1 if n_new else 0


def replay_c12(path):
    rep = json.load(open(path))
    case, o = rep["case"]["case"], rep["case"]["observation"]
    if case.get("kind") == "ckpt":          # channel-restore clause: the cases are positional in CkptGen's enumeration
        _, ck_bad, _ = ckpt_check(_repo())
        return _replay_verdict("C12", [b for b in ck_bad if b[0] == case["id"]], lambda r: [r.replace(":", "/")], {"_path": path, "case": case})
    k = int(o["id"].rsplit(".", 1)[1]) if "." in o["id"] else 0
    lines, _ = ser_replay([case], variants=max(k + 1, 2) if "." in o["id"] else 1)
    lines = [ln for ln in lines if json.loads(ln)["id"] == o["id"]]
    if not lines:
        raise Inconclusive("replay: the harness produced no observation with id %s" % o["id"])
    res = ser_validate(lines, nproc=1)
    return _replay_verdict("C12", res["bad"], ser_sigs, {"_path": path, "case": case})


def replay_c14(path):
    rep = json.load(open(path))
    case = rep["case"]["case"]
    lines, _ = cat_replay([case])
    res = cat_validate(lines, nproc=1)
    return _replay_verdict("C14", res["bad"], lambda r: [cat_sig(r)], {"_path": path, "case": case})


CHECKS = {"C12": c12, "C14": c14}
REPLAY = {"C12": replay_c12, "C14": replay_c14}
