"""Checks of the paradigm family: C04 (Invoke/Stream/Collect/Transform agree) and C15 (workflow field mappings).

Pipeline of both checks (DESIGN.md 3.5):
  1. model level   TLC explores the implementation-shaped model (spec/Paradigm.tla, spec/FieldMap.tla) for every configuration in
                   the bound, checks  Impl(with the proposed repairs) => Rule  as an invariant, and prints each configuration as a
                   case together with what the model of the UNREPAIRED code predicts
  2. replay        the Go harness builds every case through the public API of the real library and records observations
  3. verdict       TLC validates the observation lines against the property-level rule (spec/ParadigmObs.tla, spec/FieldMapObs.tla);
                   only a rejection there, of an observation of REAL code, reproduced by a second run, is a VIOLATION
  4. drift         real verdict vs model prediction per case is reported (never a violation by itself)
"""
import hashlib
import json
import os
import random
import time

import vlib
from vlib import log, Inconclusive

H = os.path.join(vlib.HARNESS, "compose")


def _q(xs):
    return "{" + ", ".join('"%s"' % x for x in xs) + "}"


def _cases_of(run, what):
    vlib.tlc_must_pass(run, what)
    seen, out = set(), []
    for t in run.tagged("CASE"):
        if len(t) != 1 or t[0] in seen:
            continue
        seen.add(t[0])
        out.append(json.loads(t[0]))
    return out


def _replay(test, overlay, cases, what, repo=None, timeout=900):
    d = vlib.mkscratch("verif-par-")
    cp, op = os.path.join(d, "cases.ndjson"), os.path.join(d, "obs.ndjson")
    with open(cp, "w") as fh:
        for c in cases:
            fh.write(json.dumps(c, separators=(",", ":")) + "\n")
    code, output, wall = vlib.go_test("compose", overlay, "^%s$" % test, timeout=timeout, repo=repo, args=["-test.v"],
                                      env={"VERIF_CASES": cp, "VERIF_OUT": op})
    vlib.go_must_run(code, output, what)
    if "cases=%d" % len(cases) not in output:
        raise Inconclusive("%s: harness did not report all cases\n%s" % (what, output[-3000:]))
    return vlib.read_lines(op), wall


# ================================================================================================ C15

FM_OVERLAY = {"compose/zz_verif_fieldmap_test.go": os.path.join(H, "zz_verif_fieldmap_test.go")}
FM_SRC = ["S", "N", "AIS", "BPS", "Mk", "XIS", "YIS", "YMkIS", "AX", "AI", "A", "W", "all"]
FM_TGT = ["S", "N", "AIS", "AMk", "BPS", "MIkS", "MIkN", "MMkIS", "MMkPS", "MMkMk", "Xk", "Xj", "Xkj", "AI", "A", "all"]
FM_VARS = ["Yptr", "Ystr", "Ynil", "nilB", "nilBP", "nokey", "nilM", "Xptr", "Xmap", "Xmapmap", "Xmapint", "Xstr", "Xnil", "AXint", "AXnil"]
FM_SRC2 = ["S", "N", "AIS", "BPS", "Mk", "XIS", "AX", "AI", "W"]
FM_TGT2 = ["S", "AIS", "AMk", "MIkS", "MIkN", "Xk", "Xj", "Xkj", "AI", "all"]
FM_VARS2 = ["nilB", "nokey", "Xnil", "Xstr", "AXint"]


def fm_repo_fixes():
    """the repairs recorded as fixed: in known_findings.txt (any property: D7 is filed under C20), as the model's Fx names"""
    import re
    fx = set()
    try:
        for ln in open(os.path.join(vlib.ROOT, "known_findings.txt")):
            if ln.startswith("fixed:") and ("property=C15" in ln or "property=C20" in ln):   # D numbers of other families may collide
                fx |= set(re.findall(r"\bD\d+\b", ln))
    except OSError:
        pass
    return sorted(fx & {"D6", "D7", "D16", "D17", "D18", "D19", "D20", "D21", "D24"})


def fm_cfg(maxmaps, src, tgt, varset, kind="struct", dkind="struct"):
    return ("CONSTANTS\n  RepoFixes = " + _q(fm_repo_fixes()) + "\n  DstKind = \"" + dkind + "\"\n  SrcKind = \"" + kind + "\"\n  MaxMaps = %d\n  SrcNames = %s\n  TgtNames = %s\n  VarSet = %s\nINIT GenInit\nNEXT GenNext\n"
            "INVARIANT FixedDesignHolds\nINVARIANT Emit\nCHECK_DEADLOCK FALSE\n" % (maxmaps, _q(src), _q(tgt), _q(varset)))


FM_MAPSRC = ["ms", "mt", "mn", "miS"]
FM_MAPTGT = ["S", "N", "AIS", "AMk", "MIkS", "MIkN", "Xk", "Xkj"]


def fm_family(name, maxmaps, src, tgt, varset, timeout=900, simulate=None, depth=None, kind="struct", dkind="struct"):
    cfg = "fm_%s.cfg" % name
    run = vlib.tlc("FieldMap", cfg, files={cfg: fm_cfg(maxmaps, src, tgt, varset, kind, dkind)}, workers=4, timeout=timeout, heap="6g",
                   simulate=simulate, depth=depth, seed=vlib.SEED if simulate else None)
    cases = _cases_of(run, "FieldMap model check / generation " + name)
    for c in cases:
        c["fam"] = name
        c["src"] = kind
        c["dst"] = dkind
    flats = {("dst:" if kind == "dst" else "") + t[0]: json.loads(t[1]) for t in run.tagged("SRCFLAT") if len(t) == 2}
    return cases, run, flats


def fm_decorate(cases, rnd, ri, rs, twice_frac):
    for i, c in enumerate(cases):
        c["id"] = "%s-%d" % (c["fam"], i)
        whole = any(len(m["t"]) == 0 for g in c["decl"] for m in g["maps"])
        # the pointer flavour cannot take a Dst VALUE as its whole input (statically rejected): value flavour for those
        c["tp"] = "map" if c.get("src") == "map" else "val" if whole or rnd.random() < 0.6 else "ptr"
        c["end"] = False
        c["pt"], c["builds"] = "", 1
        # a second Compile is only tried where no run-time checker is involved: in stream mode both defects end in the same panic
        c["twice"] = (not c.get("chk")) and rnd.random() < twice_frac
        c["ri"], c["rs"] = ri, rs
        if c.get("src") == "dst":
            # source type == target type == VfmDst, with a PASS-THROUGH node next to the field mappings, compiled six times (the order in
            # which a pass-through is typed follows map iteration): typed from START of a Workflow[VfmDst, string] with the mappings
            # pointing into it / typed from its successor with the mappings pointing into it / typed from a struct predecessor with
            # the mappings reading out of it.  (With DIFFERENT neighbour types the pinned tree types a pass-through from whichever
            # neighbour comes first, mapped edge or not, and Compile fails in some builds: reported separately, see notes.)
            c["pt"] = ("start", "in", "out")[rnd.randrange(3)]
            c["tp"] = "val" if c["pt"] == "start" else "dsrc"
            c["builds"], c["twice"], c["ri"], c["rs"] = 6, False, 6, 6
        if c.get("dst", "struct") != "struct":
            c["tp"] = {"maps": "dmaps", "mapa": "dmapa", "str": "dstr"}[c["dst"]]
            c["end"] = rnd.random() < 0.5          # the successor is END itself in half of these cases
        if c["fam"] == "dky":
            # the successor is a string lambda added WithInputKey("k"); the (string-typed) mapping targets that key
            c["tp"], c["end"] = "dkey", False
    return cases


def fm_entryset(flat):
    return {(tuple(e["p"]), e["k"], e["v"]) for e in flat}


def fm_check_mirror(lines, flats):
    """the harness's predecessor values must be the model's SrcVal (guards the hand-written mirror of the type family)"""
    seen = set()
    for ln in lines:
        d = json.loads(ln)
        isdst = d.get("pt") == "start" or d["tp"] == "dsrc"
        key = (d["tp"], d["var"], isdst)
        if key in seen or not d["outs"] or any(len(g["maps"]) == 0 for g in d["decl"]):
            continue
        fkey = "dst:full" if isdst else d["var"]
        if fkey not in flats:
            continue
        seen.add(key)
        o = d["outs"][0]
        want = {(p, k, v.replace("p1:", o["pred"] + ":")) for (p, k, v) in fm_entryset(flats[fkey])}
        got = fm_entryset(o["flat"])
        if want != got:
            raise Inconclusive("harness value for variant %s differs from the model's SrcVal: only in model %s, only in harness %s" % (
                d["var"], sorted(want - got)[:5], sorted(got - want)[:5]))
    return len(seen)


def fm_first_msg(line, scope, kinds):
    for r in line["runs"]:
        if (scope in ("cross", "compile") or r["mode"] == scope) and r["kind"] in kinds:
            return r["msg"]
    return ""


def fm_pred(case):
    """verdict the model predicts: for the code as first seen, or with the repairs recorded as fixed: in known_findings.txt"""
    key = "predf" + ("2" if case.get("twice") else "")
    return case.get(key, [])


def fm_classify(case, reason, line):
    """root-cause signature of a rejected case: known defects keep their own signature, anything else stays distinguishable"""
    scope, r = reason.split(":", 1)
    model = set(fm_pred(case))
    if r == "overlap-accepted":
        # explained by the literal model of checkAndAddMappedPath (sub-map overwrite / no trace of the whole-input path)?
        if any(len(g["maps"]) == 0 for g in case["decl"]):
            # AddInput(pred) without mappings (= the whole input) accepted next to field mappings of the same node
            return "overlap-whole-input-addinput"
        return "overlap-order" if "overlap-accepted" in model else "overlap-accepted-unmodelled"
    if r in ("panic", "unexpected-error", "hang"):
        msg = fm_first_msg(line, scope, ("panic",) if r == "panic" else ("err",) if r == "unexpected-error" else ("hang",))
        if case.get("pt") and ("but output is not a struct" in msg or "field not found" in msg or "unexpected input type. expected: *schema.StreamReader" in msg
                               or "mismatched type" in msg):
            # the value assembled for a field-mapped PASS-THROUGH node is not of the node's input type
            return "passthrough-input-built-as-wrong-type(pt=%s)" % case["pt"]
        if case.get("tp") == "dkey" and "inputStreamFilter failed" in msg:
            return "input-key-node-stream-converter"       # field mappings into a WithInputKey node: stream form built with the wrong chunk type
        if case.get("twice") and ("unexpected input type. expected: map[string]interface" in msg or "converter" in msg):
            return "second-compile"
        if "unsupported chunk type: interface {}" in msg or "chunk type mismatch. expect: map[string]interface {}, got: interface {}" in msg:
            return "stream-checker"
        if "interface is nil, not compose.streamReader" in msg and scope == "stream" and ("FieldMappingConverter" in msg or "newGenericHelper" in msg):
            # the stream form of the pre-node converter got a chunk type other than map[string]any: because a run-time checker
            # turned it into `any` (D16), or because a second Compile installed the converter twice (D7)
            return "stream-checker" if case.get("chk") else "second-compile" if case.get("twice") else "stream-converter-chunk-type"
        if "reflect.Value.Type on zero Value" in msg and "takeOne" in msg:
            return "nil-interface-hop"
        if "FieldByName on zero Value" in msg:
            return "nil-pointer-hop"
        if "convertTo failed when must succeed" in msg and ("mismatched type" in msg or "from a zero reflect.Value" in msg):
            # a value that its own run-time checker would have refused reached the converter: the checker tested it against the
            # LAST mapping's target type
            return "stale-closure"
        if "runtime check failed for mapping" in msg and "field[<nil>]" in msg and case.get("var") == "sparse":
            return "checker-on-key-absent-from-chunk"
        if "runtime check failed for mapping" in msg:
            return "stale-closure"
        if "convertTo failed when must succeed" in msg and "not exported" in msg:
            return "map-elem-struct"
        if "Set using unaddressable value" in msg and any(len(m["t"]) == 0 for g in case["decl"] for m in g["maps"]):
            return "whole-input-into-map-successor"       # convertTo assigns the whole input into a map value that is not addressable
        if "Set using unaddressable value" in msg:
            return "map-elem-unaddressable"
        if case.get("var") == "Ystr" and r == "panic":
            return "non-walkable-interface-implementation-panic"   # a source path through a non-empty interface holding e.g. a named string
        return "%s-%s-%s" % (scope, r, hashlib.sha1(msg[:60].encode()).hexdigest()[:6])
    if r == "wrong-input" and case.get("var") == "sparse":
        return "wrong-input-sparse-chunks"
    if r == "wrong-input" and any(len(m["t"]) == 4 and m["t"][0] == "MM" for g in case["decl"] for m in g["maps"]):
        # which targets below the map element did not arrive?  (first run of the scope that delivered an input)
        run = next((x for x in line["runs"] if x["mode"] == scope and x["kind"] == "ok"), None)
        have = [e["p"] for e in run["in"]] if run else []
        def src_present(pred, spath):
            # (a target whose SOURCE is absent in the predecessor's value - nil map, missing key - is not a lost update: that is D19)
            for o in line.get("outs", []):
                if o.get("pred") == pred:
                    return any(e["p"][:len(spath)] == spath and e["k"] != "nil" for e in o["flat"])
            return True
        lost = [m["t"] for g in case["decl"] for m in g["maps"] if len(m["t"]) == 4 and m["t"][0] == "MM"
                and not any(p[:4] == m["t"] for p in have) and src_present(g["pred"], m["s"])]
        if any(t[2] in ("P", "M") for t in lost):
            return "map-elem-ptr-or-map-field-lost-update"       # pointer / map field of a by-value map element: NOT the known D21 shape
        if any(t[2] == "I" for t in lost):
            return "map-elem-nested-struct-lost-update"
        return "wrong-input-map-elem"
    if r == "missing-source-handled-differently":
        return "absent-key" if case["var"] in ("nokey", "nilM") else "missing-source-" + case["var"]
    return r


def _validate_batched(module, cfg, lines, nproc, batch):
    """validate in batches so that one JVM never deserialises more than a few MB of trace"""
    tot = {"states": 0, "transitions": 0, "bad": [], "runs": []}
    for i in range(0, len(lines), batch):
        r = vlib.validate_traces(module, cfg, lines[i:i + batch], nproc=nproc, timeout=900, heap="3g")
        tot["states"] += r["states"]
        tot["transitions"] += r["transitions"]
        tot["bad"] += r["bad"]
        tot["runs"] += r["runs"]
    return tot


def fm_validate(lines, nproc=4):
    return _validate_batched("FieldMapObs", "FieldMapObs.cfg", lines, nproc, 6000)


def c15(tier, repo=None):
    t0 = time.time()
    rnd = random.Random(vlib.SEED * 104729 + 15)
    log("[C15] tier=%s seed=%d repo=%s" % (tier, vlib.SEED, repo or vlib.REPO))
    if tier == "quick":
        fams = [("m1", 1, FM_SRC, FM_TGT, FM_VARS, {}),
                ("m3s", 3, ["S", "AI"], ["AIS", "AMk", "AI", "A"], [], {}),
                # targets below an element of a map of structs BY VALUE: through a by-value struct field (D21), a pointer field, a map field
                ("mme", 2, ["S", "AIS", "N"], ["MMkPS", "MMkMk", "MMkIS", "MIkS", "MIkN"], [], {}),
                # successors (lambda / END) of map and string type: whole input from one field (FromField / FromFieldPath) and key by key
                ("dms", 2, ["M", "S", "AIS", "Mk"], ["all", "k"], ["nokey"], {"dkind": "maps"}),
                ("dma", 2, ["MA", "S", "AI", "M"], ["all", "k"], [], {"dkind": "mapa"}),
                ("dst", 1, ["S", "AIS", "BPS", "Mk"], ["all"], ["nilB", "nokey"], {"dkind": "str"}),
                ("dky", 1, ["S", "AIS", "BPS", "Mk"], ["k"], ["nilB"], {"dkind": "mapa"}),
                # source paths through a NON-EMPTY interface type (struct field / map element), walkable and non-walkable implementations
                ("yi", 2, ["YIS", "YMkIS", "S"], ["S", "AIS", "Xk"], ["Yptr", "Ystr", "Ynil"], {}),
                # a pass-through typed from START (workflow input type VfmDst != output type string) receives the field mappings
                ("pts", 2, ["S", "N", "AIS", "BPS", "Mk"], ["S", "N", "AIS", "AMk", "BPS", "MIkS", "Xk"], [], {"kind": "dst"}),
                # whole-input AddInput (no mappings) before / after field mappings and next to another whole input, both orders
                ("mw", 2, ["S", "W"], ["S", "AIS", "all"], [], {}),
                # map[string]any predecessor, stream-native, dense or ONE KEY PER CHUNK; every mapping needs the run-time checker
                ("mm", 2, FM_MAPSRC, FM_MAPTGT, [], {"kind": "map"}),
                ("m2", 2, FM_SRC2, FM_TGT2, FM_VARS2, {})]
        limit = {"m2": 2000, "mm": 900}
        ri, rs = 5, 3
    else:
        fams = [("m1", 1, FM_SRC, FM_TGT, FM_VARS, {}),
                ("m2", 2, FM_SRC, FM_TGT, FM_VARS, {"timeout": 1500}),
                ("mw", 3, ["S", "W"], ["S", "AIS", "all"], [], {}),
                ("dms", 3, ["M", "S", "AIS", "Mk"], ["all", "k"], ["nokey", "nilM"], {"dkind": "maps"}),
                ("dma", 3, ["MA", "S", "AI", "M", "W"], ["all", "k"], [], {"dkind": "mapa"}),
                ("dst", 1, ["S", "AIS", "BPS", "Mk"], ["all"], ["nilB", "nilBP", "nokey", "nilM"], {"dkind": "str"}),
                ("dky", 1, ["S", "AIS", "BPS", "Mk"], ["k"], ["nilB", "nilBP"], {"dkind": "mapa"}),
                ("yi", 3, ["YIS", "YMkIS", "S"], ["S", "AIS", "Xk"], ["Yptr", "Ystr", "Ynil"], {}),
                ("pts", 3, ["S", "N", "AIS", "BPS", "Mk"], ["S", "N", "AIS", "AMk", "BPS", "MIkS", "Xk", "AI", "A"], [], {"kind": "dst"}),
                ("mme", 3, ["S", "AIS", "N"], ["MMkPS", "MMkMk", "MMkIS", "MIkS", "MIkN"], [], {}),
                ("mm", 3, FM_MAPSRC, FM_MAPTGT, [], {"kind": "map", "timeout": 1500}),
                ("m3", 3, ["S", "AIS", "AX", "N", "AI"], ["AIS", "AMk", "AI", "A", "MIkS", "MIkN", "Xk", "Xkj", "all"], ["AXint"], {"timeout": 1500})]
        limit = {"m2": 40000, "m3": 30000, "mm": 15000}
        ri, rs = 5, 5
    cases, gen_stats, flats = [], [], {}
    states = trans = 0
    exhaustive = True
    for name, mm, src, tgt, vs, kw in fams:
        fam, run, fl = fm_family(name, mm, src, tgt, vs, **kw)
        flats.update(fl)
        states += run.distinct
        trans += run.generated
        total = len(fam)
        if name in limit and len(fam) > limit[name]:
            rnd.shuffle(fam)
            fam = fam[:limit[name]]
            exhaustive = False
        gen_stats.append({"family": name, "max_mappings": mm, "sources": src, "targets": tgt, "variants": ["full"] + vs, "tlc_distinct": run.distinct,
                          "tlc_generated": run.generated, "cases_enumerated": total, "cases_replayed": len(fam), "wall_s": round(run.wall_s, 1)})
        log("  family %s: TLC %d distinct states (Impl with repairs => Rule holds), %d cases, %d replayed, %.0fs" % (
            name, run.distinct, total, len(fam), run.wall_s))
        cases += fam
    fm_decorate(cases, rnd, ri, rs, 0.08)
    lines, wall_go = _replay("TestVerifFieldMap", FM_OVERLAY, cases, "fieldmap replay", repo=repo)
    nvar = fm_check_mirror(lines, flats)
    log("  replayed %d cases on the real Workflow API (%.0fs); %d variants of the predecessor value match the model" % (len(lines), wall_go, nvar))
    res = fm_validate(lines)
    by_id = {c["id"]: c for c in cases}
    obs = {}
    for ln in lines:
        d = json.loads(ln)
        obs[d["id"]] = d
    if set(obs) != set(by_id):
        raise Inconclusive("observation lines do not cover the cases: %d lines for %d cases" % (len(obs), len(by_id)))
    infos = [b for b in res["bad"] if "INFO:" in str(b[2])]
    if infos:
        ex = obs[infos[0][0]]
        log("  note: %d cases (pass-through flavour %s): Compile of the same workflow succeeded in some builds and failed in others - %s" % (
            len(infos), sorted({obs[b[0]].get("pt") for b in infos}), ex["compile"]["msg"][:200]))
        res["bad"] = [b for b in res["bad"] if "INFO:" not in str(b[2])]
    notes = [b for b in res["bad"] if "NOTE:" in str(b[2])]
    if notes:
        raise Inconclusive("%d cases hit a machinery note (%s), e.g. %s: %s" % (
            len(notes), notes[0][2], notes[0][0], obs[notes[0][0]]["compile"]["msg"]))
    bad = [(b[0], b[2]) for b in res["bad"]]
    # reproduce
    confirmed = []
    if bad:
        ids = sorted({cid for cid, _ in bad})
        again = [by_id[i] for i in ids]
        lines2, _ = _replay("TestVerifFieldMap", FM_OVERLAY, again, "fieldmap replay (reproduction)", repo=repo)
        res2 = fm_validate(lines2)
        bad2 = {(b[0], b[2]) for b in res2["bad"]}
        obs2 = {json.loads(ln)["id"]: json.loads(ln) for ln in lines2}
        for cid, reason in bad:
            if (cid, reason) in bad2:
                confirmed.append((cid, reason, obs2[cid]))
            else:
                log("  note: rejection of %s (%s) did not reproduce on a second run: not counted" % (cid, reason))
    verdict = vlib.Verdict("C15")
    sig_count = {}
    for cid, reason, line in confirmed:
        sig = fm_classify(by_id[cid], reason, line)
        sig_count[sig] = sig_count.get(sig, 0) + 1
        verdict.violation(sig, {"case": by_id[cid], "observation": line}, reason + " | " + fm_first_msg(line, reason.split(":")[0], ("panic", "err"))[:200])
    # drift: the verdict on the real code vs what the model of the unrepaired code predicts
    real = {}
    for cid, reason in bad:
        real.setdefault(cid, set()).add(reason.split(":", 1)[1])
    drift = {}
    for c in cases:
        p = set(fm_pred(c))
        r = real.get(c["id"], set())
        if p != r:
            k = "model=%s real=%s" % (sorted(p), sorted(r))
            drift[k] = drift.get(k, 0) + 1
    for k, v in sorted(drift.items(), key=lambda kv: -kv[1])[:8]:
        log("  DRIFT (model of the code vs real verdict) %s: %d cases" % (k, v))
    code, n_new, n_known = verdict.finish()
    for sig, k in sorted(sig_count.items()):
        log("  rejected, reproduced: sig=%s %d cases" % (sig, k))
    nontriv = len({json.dumps([c["decl"], c["var"], c["tp"], c["twice"], c.get("pt"), c.get("end")], sort_keys=True) for c in cases
                   if sum(max(1, len(g["maps"])) for g in c["decl"]) >= 2 or c["var"] != "full"})
    some = vlib.sample(sorted(obs.keys()), 3)
    cov = {"states": states, "transitions": trans, "traces_validated_against_impl": len(obs),
           "samples": [{"case": by_id[k], "observation": {"compile": obs[k]["compile"], "runs": [{x: r[x] for x in ("mode", "kind", "in")} for r in obs[k]["runs"][:2]]}} for k in some],
           "evaluations": len(obs), "distinct_nontrivial": nontriv,
           "rule": "cases = every declaration sequence TLC enumerates from spec/FieldMap.tla inside the family bounds (ordered mappings over the path "
                   "universe x split over 1-2 AddInput calls x relevant nil/absent/dynamic-type variants), value/pointer flavour and second-Compile "
                   "spread by VERIF_SEED; each is compiled and run (Invoke x%d, Stream x%d) through the Workflow API and its observation line is validated "
                   "by TLC against spec/FieldMapObs.tla; distinct = distinct (declaration, variant, flavour, twice); non-trivial = at least two "
                   "mappings or a non-default variant" % (ri, rs),
           "exhaustive": exhaustive, "families": gen_stats, "runs_per_case": ri + rs,
           "trace_validation_states": res["states"], "rejected_case_reasons": len(bad), "confirmed": len(confirmed),
           "signatures": sig_count, "known_findings": n_known, "drift": drift, "compile_outcome_unstable_cases": len(infos)}
    vlib.write_evidence("C15", tier, "model_checking", cov, assumptions=[
        "type universe: the fixed family VfmIn/VfmMid/VfmDst/VfmSrc (struct, pointer, map[string]string, map[string]struct, any), depth <= 3",
        "the empty target path (whole input) counts as a prefix of every path (FromField is documented as exclusive)",
        "a source path that does not exist in the value may be an error or leave the target zero, but identically in every run; a panic never",
        "dynamically typed sources are only paired with string/int/any targets",
        "TLC, the Json community module and the Go harness (flattening of values) are trusted"],
        wall_s=time.time() - t0, violations=n_new)
    log("[C15] %s: %d cases validated, %d distinct non-trivial, %d rejected reasons (%d confirmed, %d known), %.0fs" % (
        "VIOLATION" if code else "ok", len(obs), nontriv, len(bad), len(confirmed), n_known, time.time() - t0))
    return code


# ================================================================================================ C04

PG_OVERLAY = {"compose/zz_verif_paradigm_test.go": os.path.join(H, "zz_verif_paradigm_test.go")}


def _tl(v):
    if isinstance(v, bool):
        return "TRUE" if v else "FALSE"
    if isinstance(v, str):
        return '"%s"' % v
    if isinstance(v, int):
        return str(v)
    return "{" + ", ".join(_tl(x) for x in v) + "}"


def pg_cfg(**kw):
    d = dict(Shapes=["chain"], NatFam="all15", OCs=[1, 2, 3], InFam="all15", Handlers=["none"], MaxNodes=1, AllowFail=False,
             AllowDup=False, AllowAny=False)
    d.update(kw)
    return ("CONSTANTS\n" + "".join("  %s = %s\n" % (k, _tl(v)) for k, v in d.items()) +
            "INIT Init\nNEXT Next\nINVARIANT LawHolds\nINVARIANT Emit\nCHECK_DEADLOCK FALSE\n"), d


def pg_family(name, timeout=900, **kw):
    text, consts = pg_cfg(**kw)
    cfg = "pg_%s.cfg" % name
    run = vlib.tlc("Paradigm", cfg, files={cfg: text}, workers=4, timeout=timeout, heap="6g")
    cases = _cases_of(run, "Paradigm model check / generation " + name)
    for c in cases:
        c["fam"] = name
    return cases, run, consts


def pg_validate(lines, nproc=4):
    return _validate_batched("ParadigmObs", "ParadigmObs.cfg", lines, nproc, 20000)


def pg_classify(case, reason, line):
    res = line["res"]
    kinds = "".join(res[p]["kind"][0] for p in "ISCT")
    if reason == "failure-not-in-every-paradigm" and case.get("dup") and "duplicated key" in res["I"]["msg"] and kinds == "eooo":
        return "fanin-dup-key"
    if any("interface is nil, not" in res[p]["msg"] and "ConcatItems" in res[p]["msg"] for p in "ISCT"):
        # two or more NIL chunks of an interface-typed stream had to be concatenated: internal.ConcatItems asserts the (nil) result
        # back to T and panics
        return "concat-nil-interface-chunks"
    det = ""
    if case["shape"] == "fank":
        det = "-width%d" % len(case["nodes"])
    if reason in ("paradigms-disagree", "value-differs-from-reference"):
        # how the streams were backed is part of the failing input: array-backed producer chunks (spare capacity?), partly read input
        det += "-bk=%s%s" % (case.get("bk", "pipe"), "-hdr" if case.get("hdr") else "")
    if reason in ("panic", "hang"):
        bad = [p for p in "ISCT" if res[p]["kind"] == reason]
        det += "-" + "".join(bad) + "-" + hashlib.sha1(res[bad[0]]["msg"][:50].encode()).hexdigest()[:6]
    return "%s(%s,%s)%s" % (reason, case["shape"], kinds, det)


def pg_key(c):
    return json.dumps({k: c[k] for k in ("shape", "nodes", "in", "dup", "pick", "bstrm", "z", "fail", "anyout")}, sort_keys=True)


def c04(tier, repo=None):
    t0 = time.time()
    rnd = random.Random(vlib.SEED * 7727 + 4)
    log("[C04] tier=%s seed=%d repo=%s" % (tier, vlib.SEED, repo or vlib.REPO))
    others = ["fan2", "fan3", "branch", "nested", "keys"]
    if tier == "quick":
        fams = [("chain1", dict(MaxNodes=1), None),
                ("chain2", dict(MaxNodes=2, OCs=[2], InFam="three"), None),
                ("chain3", dict(MaxNodes=3, NatFam="six", OCs=[2], InFam="two"), None),
                ("shapes", dict(Shapes=others, NatFam="four", OCs=[2], InFam="two", MaxNodes=3, AllowFail=True, AllowDup=True), 3500),
                # fan-in widths 4, 5, 6 (mixed native forms); workflow field mappings with a run-time check from a map source that
                # stream-native producers emit one key per chunk
                ("fmap", dict(Shapes=["fmap", "fmapn"], NatFam="six", OCs=[1, 2, 3], InFam="three", MaxNodes=2, AllowFail=True), 3000),
                # a NAMED map type on the edge (as chunk type / nested in a map[string]any chunk), produced in >= 2 chunks, consumed by every
                # native-form subset incl. invoke-only
                ("nmap", dict(Shapes=["nmap", "nmapn"], NatFam="six", OCs=[1, 2, 3], InFam="two", MaxNodes=2), None),
                ("handlers", dict(MaxNodes=2, NatFam="four", OCs=[2], InFam="two", Handlers=["none", "val", "str"], AllowAny=True, AllowFail=True), 2500),
                # nil interface values on interface-typed edges: nil node output to END / to the next node (any, user interface), nil graph
                # input, nil into a branch condition
                ("nil", dict(Shapes=["nil1", "nil2", "nilif", "nilin", "nilbr"], NatFam="four", OCs=[1, 2], InFam="two", MaxNodes=3), None),
                # edge + branch to the same target (multi-chunk pipe producers); END reached with no data (execution-only predecessor, every
                # data predecessor skipped), input type string vs output type map[string]any, as Workflow and as AllPredecessor graph
                ("ebr", dict(Shapes=["ebr", "eskw", "eskg"], NatFam="four", OCs=[1, 2], InFam="two", MaxNodes=3), 2500),
                # fan-out then fan-in of map streams without output keys (array-backed producers with spare capacity), each case repeated
                ("fofi", dict(Shapes=["fofi"], NatFam="four", OCs=[2, 3], InFam="two", MaxNodes=5), None),
                # input keys carried by pass-through nodes that take their type from a type-changing successor (string -> keyed map)
                ("keypt", dict(Shapes=["keypt"], NatFam="four", OCs=[2], InFam="two", MaxNodes=2, AllowFail=True), None),
                # last, because a hanging merge uses up the harness's quota of hung calls and the rest is then not run
                ("wide", dict(Shapes=["fank"], NatFam="four", OCs=[2, 3], InFam="two", MaxNodes=6), None)]
    else:
        fams = [("chain2", dict(MaxNodes=2), 60000),
                ("chain3", dict(MaxNodes=3, NatFam="six", OCs=[1, 2, 3], InFam="five"), 40000),
                ("shapes", dict(Shapes=others, NatFam="six", OCs=[2, 3], InFam="three", MaxNodes=3, AllowFail=True, AllowDup=True), 60000),
                ("fmap", dict(Shapes=["fmap", "fmapn"], NatFam="all15", OCs=[1, 2, 3], InFam="five", MaxNodes=2, AllowFail=True), 30000),
                ("nmap", dict(Shapes=["nmap", "nmapn"], NatFam="all15", OCs=[1, 2, 3], InFam="five", MaxNodes=2, AllowFail=True), 20000),
                ("handlers", dict(MaxNodes=2, NatFam="six", OCs=[2], InFam="three", Handlers=["none", "val", "str"], AllowAny=True, AllowFail=True), 40000),
                ("nil", dict(Shapes=["nil1", "nil2", "nilif", "nilin", "nilbr"], NatFam="six", OCs=[1, 2, 3], InFam="three", MaxNodes=3, AllowFail=True), 40000),
                ("ebr", dict(Shapes=["ebr", "eskw", "eskg"], NatFam="six", OCs=[1, 2, 3], InFam="three", MaxNodes=3), 40000),
                ("fofi", dict(Shapes=["fofi"], NatFam="six", OCs=[1, 2, 3], InFam="five", MaxNodes=5), 4000),
                ("keypt", dict(Shapes=["keypt"], NatFam="six", OCs=[1, 2, 3], InFam="three", MaxNodes=2, AllowFail=True), 20000),
                ("wide", dict(Shapes=["fank"], NatFam="four", OCs=[1, 2, 3], InFam="five", MaxNodes=6, AllowFail=True), 20000)]
    cases, seen, gen_stats = [], set(), []
    states = trans = 0
    exhaustive = True
    for name, kw, limit in fams:
        fam, run, consts = pg_family(name, timeout=1700 if tier == "thorough" else 600, **kw)
        states += run.distinct
        trans += run.generated
        fam = [c for c in fam if pg_key(c) not in seen]
        total = len(fam)
        if limit and len(fam) > limit:
            rnd.shuffle(fam)
            fam = fam[:limit]
            exhaustive = False
        for c in fam:
            seen.add(pg_key(c))
        gen_stats.append({"family": name, "constants": consts, "tlc_distinct": run.distinct, "tlc_generated": run.generated,
                          "cases_enumerated": total, "cases_replayed": len(fam), "wall_s": round(run.wall_s, 1)})
        log("  family %s: TLC %d distinct states (law holds on the model; D13 named), %d new cases, %d replayed, %.0fs" % (
            name, run.distinct, total, len(fam), run.wall_s))
        cases += fam
    # secondary dimensions the model is indifferent to (a chunk sequence is a chunk sequence), spread by VERIF_SEED: how multi-chunk
    # producer outputs are backed (pipe / array / array over a slice with spare capacity) and whether Collect / Transform get an
    # array-backed input reader off which the caller has already read a header chunk.  The fan-out + fan-in family is run with every
    # backing and repeated (the merge order of a fan-in is random).
    expanded = []
    for c in cases:
        if c["fam"] == "fofi":
            for bk, reps in (("arrcap", 8), ("arr", 2), ("pipe", 2)):
                for k in range(reps):
                    expanded.append(dict(c, bk=bk, hdr=(k % 2 == 1)))
        else:
            expanded.append(dict(c, bk=("pipe", "arr", "arrcap")[rnd.randrange(3)], hdr=rnd.random() < 0.35))
    cases = expanded
    for i, c in enumerate(cases):
        c["id"] = "%s-%d" % (c["fam"], i)
    lines, wall_go = _replay("TestVerifParadigm", PG_OVERLAY, cases, "paradigm replay", repo=repo)
    log("  replayed %d configurations x 4 paradigms on the real library (%.0fs)" % (len(lines), wall_go))
    res = pg_validate(lines)
    by_id = {c["id"]: c for c in cases}
    obs = {}
    for ln in lines:
        d = json.loads(ln)
        obs[d["id"]] = d
    if set(obs) != set(by_id):
        raise Inconclusive("observation lines do not cover the configurations: %d lines for %d cases" % (len(obs), len(by_id)))
    notes = [b for b in res["bad"] if "NOTE:" in str(b[2])]
    if notes:
        raise Inconclusive("the harness could not build %d generated configurations, e.g. %s: %s" % (
            len(notes), notes[0][0], obs[notes[0][0]]["res"]["I"]["msg"]))
    bad = [(b[0], b[2]) for b in res["bad"]]
    skipped = sum(1 for o in obs.values() if o["res"]["I"]["kind"] == "skip")
    if skipped:
        log("  note: %d configurations were not run because the harness had already recorded its quota of hung calls" % skipped)
    confirmed = []
    if bad:
        ids = sorted({cid for cid, _ in bad})
        lines2, _ = _replay("TestVerifParadigm", PG_OVERLAY, [by_id[i] for i in ids], "paradigm replay (reproduction)", repo=repo)
        res2 = pg_validate(lines2)
        bad2 = {(b[0], b[2]) for b in res2["bad"]}
        obs2 = {json.loads(ln)["id"]: json.loads(ln) for ln in lines2}
        for cid, reason in bad:
            if (cid, reason) in bad2:
                confirmed.append((cid, reason, obs2[cid]))
            else:
                log("  note: rejection of %s (%s) did not reproduce on a second run: not counted" % (cid, reason))
    verdict = vlib.Verdict("C04")
    sig_count = {}
    for cid, reason, line in confirmed:
        sig = pg_classify(by_id[cid], reason, line)
        sig_count[sig] = sig_count.get(sig, 0) + 1
        verdict.violation(sig, {"case": by_id[cid], "observation": line}, reason + " | " + " ; ".join(
            "%s:%s %s" % (p, line["res"][p]["kind"], line["res"][p]["msg"][:100]) for p in "ISCT"))
    # drift: model prediction vs real verdict, and derivation table (which native form served each node) vs the calls observed
    real = {}
    for cid, reason in bad:
        real.setdefault(cid, set()).add(reason)
    drift, fdrift = {}, {}
    for c in cases:
        o = obs[c["id"]]
        p, r = set(c["pred"]), real.get(c["id"], set())
        if p != r:
            k = "model=%s real=%s" % (sorted(p), sorted(r))
            drift[k] = drift.get(k, 0) + 1
        for par in "ISCT":
            want = c["fv"] if par == "I" else c["fs"]
            if o["res"][par]["kind"] == "ok" and sorted(o["res"][par]["forms"]) != sorted(want):
                k = "%s: table=%s called=%s" % (par, sorted(want), sorted(o["res"][par]["forms"]))
                fdrift[k] = fdrift.get(k, 0) + 1
    for k, v in sorted(drift.items(), key=lambda kv: -kv[1])[:6]:
        log("  DRIFT (model vs real verdict) %s: %d cases" % (k, v))
    for k, v in sorted(fdrift.items(), key=lambda kv: -kv[1])[:6]:
        log("  DRIFT (derivation table vs native forms actually called) %s: %d cases" % (k, v))
    code, n_new, n_known = verdict.finish()
    for sig, k in sorted(sig_count.items()):
        log("  rejected, reproduced: sig=%s %d cases" % (sig, k))
    nontriv = len({pg_key(c) + c["bk"] + str(c["hdr"]) for c in cases if len(c["in"]) > 1 and any(len(n["nat"]) < 4 for n in c["nodes"])})
    some = vlib.sample(sorted(obs.keys()), 3)
    cov = {"states": states, "transitions": trans, "traces_validated_against_impl": len(obs) - skipped,
           "samples": [{"case": by_id[k], "observation": {p: {x: obs[k]["res"][p][x] for x in ("kind", "chunks", "forms")} for p in "ISCT"}} for k in some],
           "evaluations": 4 * len(obs), "distinct_nontrivial": nontriv,
           "rule": "configurations = everything TLC enumerates from spec/Paradigm.tla inside the family bounds (shape x native-form subset per node x "
                   "output chunking x input chunking x handlers x failure injection), the larger families cut to a VERIF_SEED-selected slice; each is built "
                   "with compose.AnyLambda from exactly the listed native forms, the four Runnable methods are called and the observation line is validated by "
                   "TLC against spec/ParadigmObs.tla; evaluations = paradigm calls; distinct = distinct configuration; non-trivial = more than one input "
                   "chunk and at least one node that lacks a native form (a derivation is exercised)",
           "exhaustive": exhaustive, "families": gen_stats, "trace_validation_states": res["states"],
           "rejected_case_reasons": len(bad), "confirmed": len(confirmed), "signatures": sig_count, "known_findings": n_known,
           "drift": drift, "derivation_table_drift": fdrift, "not_run_after_hang_quota": skipped}
    vlib.write_evidence("C04", tier, "model_checking", cov, assumptions=[
        "nodes append a marker at the end of the stream; chunk type string, map[string]any at keyed fan-in; at least one output chunk",
        "an `any`-typed node output (run-time checked edge) is only produced by value-returning native forms (concatenation of `any` chunks is C14's business)",
        "stream merge order at fan-in is whatever the run produced; the rule concatenates per key",
        "TLC, the Json community module and the Go harness are trusted"],
        wall_s=time.time() - t0, violations=n_new)
    log("[C04] %s: %d configurations validated, %d distinct non-trivial, %d rejected (%d confirmed, %d known), %.0fs" % (
        "VIOLATION" if code else "ok", len(obs), nontriv, len(bad), len(confirmed), n_known, time.time() - t0))
    return code


CHECKS = {"C04": c04, "C15": c15}


# ================================================================================================ self-test of the trace specs

def selftest():
    """corrupt one field of a recorded line / drop one element: the trace specs must reject both (BUILDING.md Sensitivity 3)"""
    out = {}
    fam, _, _ = fm_family("m1", 1, ["S", "AIS"], ["S", "AIS", "BPS"], [])
    fm_decorate(fam, random.Random(1), 2, 2, 0.0)
    lines, _ = _replay("TestVerifFieldMap", FM_OVERLAY, fam, "selftest fieldmap")
    base = fm_validate(lines, nproc=1)
    d = json.loads(lines[0])
    d["runs"][0]["in"][0]["v"] += "x"
    bad1 = fm_validate(['{"ev":"case",' + json.dumps(d)[1:]] + lines[1:], nproc=1)["bad"]
    d = json.loads(lines[0])
    del d["runs"][1]
    bad2 = fm_validate(['{"ev":"case",' + json.dumps(d)[1:]] + lines[1:], nproc=1)["bad"]
    out["C15"] = {"clean_lines_rejected": len(base["bad"]), "corrupted_field": [b[2] for b in bad1], "dropped_run": [b[2] for b in bad2]}
    cases, _, _ = pg_family("st", MaxNodes=1, NatFam="four", OCs=[2], InFam="two")
    for i, c in enumerate(cases):
        c["id"] = "st-%d" % i
    lines, _ = _replay("TestVerifParadigm", PG_OVERLAY, cases, "selftest paradigm")
    base = pg_validate(lines, nproc=1)
    d = json.loads(lines[0])
    d["res"]["T"]["chunks"][0][0]["v"] += "x"
    bad1 = pg_validate(['{"ev":"case",' + json.dumps(d)[1:]] + lines[1:], nproc=1)["bad"]
    d = json.loads(lines[0])
    d["res"]["S"]["chunks"] = d["res"]["S"]["chunks"][:-1]
    bad2 = pg_validate(['{"ev":"case",' + json.dumps(d)[1:]] + lines[1:], nproc=1)["bad"]
    out["C04"] = {"clean_lines_rejected": len(base["bad"]), "corrupted_field": [b[2] for b in bad1], "dropped_chunk": [b[2] for b in bad2]}
    log(json.dumps(out, indent=1))
    ok = all(v["clean_lines_rejected"] == 0 and v["corrupted_field"] for v in out.values()) and out["C15"]["dropped_run"] and out["C04"]["dropped_chunk"]
    return 0 if ok else 2


# ================================================================================================ replay of a recorded violation

def _replay_one(prop, path, test, overlay, validate, classify):
    d = json.load(open(path))
    case = d["case"]["case"]
    lines, _ = _replay(test, overlay, [case], "replay of " + path)
    res = validate(lines, nproc=1)
    verdict = vlib.Verdict(prop)
    line = json.loads(lines[0])
    for b in res["bad"]:
        if "NOTE:" in str(b[2]):
            raise Inconclusive("replay hit a machinery note: %s" % (b[2],))
        verdict.violation(classify(case, b[2], line), {"case": case, "observation": line}, b[2])
    code, n_new, n_known = verdict.finish()
    log("[%s] replay of %s: %s" % (prop, path, "rejected again" if res["bad"] else "accepted (not reproduced)"))
    return code


REPLAY = {
    "C04": lambda path: _replay_one("C04", path, "TestVerifParadigm", PG_OVERLAY, pg_validate, pg_classify),
    "C15": lambda path: _replay_one("C15", path, "TestVerifFieldMap", FM_OVERLAY, fm_validate, fm_classify),
}


if __name__ == "__main__":
    import sys
    if sys.argv[1:] == ["selftest"]:
        vlib.run_check(selftest)
