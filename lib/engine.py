"""Engine-family pipeline (C01, C02, C05, C06, C11-engine part, C13): TLC-generated scenarios -> real runs -> RunObs validation."""
import hashlib
import json
import os
import random
import re
import sys
import time

sys.path.insert(0, os.path.dirname(os.path.abspath(__file__)))
import vlib
from vlib import log, Inconclusive

class ProcessKilled(Exception):
    """An injected node panic escaped every recover of the framework and killed the test process."""
    def __init__(self, case_id, output):
        Exception.__init__(self, "process killed by the panic injected in " + case_id)
        self.case_id, self.output = case_id, output


HARNESS_OVERLAY = {"compose/zz_verif_engine_test.go": os.path.join(vlib.HARNESS, "compose", "zz_verif_engine_test.go")}


def cfg_text(consts, init="GenInit", nxt="GenNext", invariants=("Emit",), extra=""):
    def val(v):
        if isinstance(v, bool):
            return "TRUE" if v else "FALSE"
        if isinstance(v, str):
            return '"%s"' % v
        if isinstance(v, (set, frozenset, list, tuple)):
            return "{" + ", ".join(val(x) for x in sorted(v)) + "}"
        return str(v)
    lines = ["CONSTANTS"] + ["  %s = %s" % (k, val(v)) for k, v in consts.items()]
    lines += ["INIT " + init, "NEXT " + nxt] + ["INVARIANT " + i for i in invariants] + ["CHECK_DEADLOCK FALSE", extra]
    return "\n".join(lines) + "\n"


def gen_family(name, consts, *, timeout=900, workers=8, simulate=None, depth=None, seed=None, sim_seconds=None, keep=None):
    """Enumerate (or sample with -simulate) the scenarios of one EinoGen configuration.
    Simulation never ends by itself (behaviours that stop in a finished scenario do not count towards num): it is given
    sim_seconds of wall clock and whatever it printed by then is the sample; `keep` bounds the sample (seeded choice)."""
    if simulate:
        run = vlib.tlc("EinoGen", "gen_%s.cfg" % name, files={"gen_%s.cfg" % name: cfg_text(consts)}, workers=workers,
                       timeout=sim_seconds or 45, simulate=simulate, depth=depth, seed=seed, heap="6g")
        if not run.timed_out:
            vlib.tlc_must_pass(run, "scenario generation " + name)
        elif run.error not in (None, "other"):
            raise Inconclusive("scenario generation %s: TLC reported %s" % (name, run.error))
    else:
        run = vlib.tlc("EinoGen", "gen_%s.cfg" % name, files={"gen_%s.cfg" % name: cfg_text(consts)}, workers=workers,
                       timeout=timeout, heap="6g")
        vlib.tlc_must_pass(run, "scenario generation " + name)
    seen, out = set(), []
    for (js,) in [t for t in run.tagged("CASE") if len(t) == 1]:
        if js in seen:
            continue
        seen.add(js)
        sc = json.loads(js)
        sc["fam"] = name
        out.append((js, sc))
    out.sort(key=lambda t: t[0])          # TLC's workers print in a nondeterministic order: make every later seeded choice reproducible
    if keep and len(out) > keep:
        random.Random((seed or 0) * 7 + 1).shuffle(out)
        out = sorted(out[:keep], key=lambda t: t[0])
    return [sc for _, sc in out], run


def gen_chains(cfg="ChainGen_q.cfg", timeout=600):
    """Chain scenarios (stage sequences x branch policies) with their lowering, enumerated by TLC from spec/ChainGen.tla"""
    run = vlib.tlc("ChainGen", cfg, workers=2, timeout=timeout)
    vlib.tlc_must_pass(run, "chain scenario generation")
    out = []
    for (js,) in [t for t in run.tagged("CASE") if len(t) == 1]:
        sc = json.loads(js)
        sc["fam"] = "chain"
        out.append((js, sc))
    out.sort(key=lambda t: t[0])
    return [sc for _, sc in out], run


def sanitize(sc):
    """dependencies between scenario dimensions (call again after changing `state` of a decorated scenario)"""
    for inner in (sc.get("sub") or {}).values():
        # a rerun node rebuilds the input of its aborted attempt from state: its own graph's, or (pstate) the parent's
        if inner.get("rerun") and not inner.get("state") and not (inner.get("pstate") and sc.get("state")):
            inner.pop("pstate", None)
            inner["state"] = True
    if sc.get("nilout") and not (sc.get("state") and sc.get("post")):
        sc.pop("nilout")


def decorate(scs, *, seed, calls_choices=(("invoke",), ("stream",), ("invoke", "stream"), ("stream", "invoke")),
             snode_frac=0.35, strm_branch_frac=0.3, noid_frac=0.0, state_frac=0.0, fail_variants=False, state_variants=False,
             delay_frac=0.5, echo_frac=0.0, wrap_frac=0.3, rmax_frac=0.0, anyout_frac=0.0, all_paradigms=False, nilout_frac=0.0, pipe_frac=0.0, dopt_frac=0.0, storefail_frac=0.0, empty_frac=0.0, ccb_frac=0.0):
    """Secondary dimensions that TLC does not enumerate are spread deterministically (seeded) over the scenarios."""
    rnd = random.Random(seed)
    for i, sc in enumerate(scs):
        sc["id"] = "%s-%d" % (sc.get("fam", "s"), i)
        sc["calls"] = list(calls_choices[rnd.randrange(len(calls_choices))])
        if all_paradigms and rnd.random() < 0.35:
            # Collect / Transform as well (the caller hands a stream in), sometimes in two chunks
            sc["calls"] = list((("transform",), ("collect",), ("transform", "invoke"), ("collect", "stream"), ("stream", "transform"),
                                ("invoke", "collect"))[rnd.randrange(6)])
            if rnd.random() < 0.5:
                sc["chunks"] = 2
        if anyout_frac and sc["mode"] in ("pregel", "dag") and sc.get("lower") != "chain" and rnd.random() < anyout_frac \
                and sum(1 for e in sc["edges"] if e[1] == "end") == 1 and not any("end" in b["ends"] for b in sc["branches"]) \
                and not any(e[1] == "end" and e[0] in (sc.get("sub") or {}) for e in sc["edges"]):
            # the graph's output type differs from its input type (Graph[map, any]); one producer for END and not a graph node (whose
            # result may arrive in several chunks), so nothing is merged or concatenated as `any` (which the library refuses)
            sc["anyout"] = True
        sc["snodes"] = [n for n in sc["nodes"] if rnd.random() < snode_frac]
        for b in sc["branches"]:
            b["strm"] = rnd.random() < strm_branch_frac
        if noid_frac and rnd.random() < noid_frac:
            sc["noid"] = True
        if rmax_frac and sc["mode"] == "pregel" and rnd.random() < rmax_frac:
            # a per-call step limit (WithRuntimeMaxSteps) overrides the compiled one for the top-level graph, at every call of the run
            sc["rmax"] = 1 + rnd.randrange(len(sc["nodes"]) + 3)
        if state_frac and not sc.get("state") and rnd.random() < state_frac:
            sc["state"] = True
        if sc["mode"] in ("wf", "dag") and len(sc["nodes"]) > 1 and "delay" not in sc and rnd.random() < delay_frac:
            # completion order of parallel node bodies (matters for eager execution): a rank per node, larger finishes later
            sc["delay"] = {n: rnd.randrange(4) for n in sc["nodes"]}
        for inner in (sc.get("sub") or {}).values():
            if rnd.random() < wrap_frac and sc["mode"] != "wf":
                inner["wrap"] = True
        if echo_frac and rnd.random() < echo_frac and not sc.get("sub") and sc.get("lower") != "chain":
            # echo nodes pass their input on unchanged: equal keys can then meet at a fan-in (merge error).  Value mode only:
            # in stream mode the engine concatenates instead (finding D13, property C04)
            cand = [n for n in sc["nodes"] if n not in sc.get("rerun", []) and not any(f["n"] == n for f in sc.get("fail", []))]
            sc["echo"] = [n for n in cand if rnd.random() < 0.6]
            if sc["echo"]:
                sc["calls"] = ["invoke"]
                sc["snodes"] = []
                for b in sc["branches"]:
                    b["strm"] = False
        if state_variants:
            # C11: every scenario is stateful; post-handlers, value-modifying handlers, a state modifier at some resume, stateful inner graphs
            sc["state"] = True
            sc["post"] = rnd.random() < 0.6
            sc["hmod"] = rnd.random() < 0.5
            sc["shand"] = rnd.random() < 0.4
            if rnd.random() < 0.02 and not sc.get("fail"):      # few: under a defect every such scenario costs a watchdog period
                cand = [n for n in sc["nodes"] if n not in sc.get("rerun", []) and n not in (sc.get("sub") or {})]
                if cand:
                    sc["fail"] = [{"n": cand[rnd.randrange(len(cand))], "kind": "cspanic"}]   # a ProcessState callback panics (node recovers)
            if len(sc["nodes"]) > 1 and "delay" not in sc and rnd.random() < 0.7:
                sc["delay"] = {n: rnd.randrange(4) for n in sc["nodes"]}
            if rnd.random() < 0.3:
                sc["smod"] = 1 + rnd.randrange(2)
            for inner in (sc.get("sub") or {}).values():
                if rnd.random() < 0.35:
                    inner["pstate"] = True      # stateless inner graph whose nodes work on the parent's state
                elif rnd.random() < 0.6:
                    inner["state"] = True
                    inner["post"] = rnd.random() < 0.5
                    inner["hmod"] = rnd.random() < 0.5
        if empty_frac and not sc.get("fail") and not sc.get("echo") and not sc.get("anyout") and sc.get("lower") != "chain" and rnd.random() < empty_frac:
            cand = [n for n in sc["nodes"] if n not in (sc.get("sub") or {}) and n not in sc.get("rerun", [])]
            if cand:
                # a node whose output stream ends without a chunk; the whole run in stream mode (in value mode the node itself could not be called)
                sc["fail"] = [{"n": cand[rnd.randrange(len(cand))], "kind": "empty"}]
                sc["calls"] = ["stream"]
                sc.pop("chunks", None)
        if ccb_frac and sc.get("sub") and sc.get("lower") != "chain" and rnd.random() < ccb_frac:
            sc["ccb"] = True
        if storefail_frac and not sc.get("noid") and (sc.get("before") or sc.get("after") or sc.get("rerun") or sc.get("sub")) and rnd.random() < storefail_frac:
            sc["storefail"] = True
        if pipe_frac and sc["snodes"] and not sc.get("anyout") and rnd.random() < pipe_frac:
            sc["pipe"] = True
        if dopt_frac and sc.get("lower") != "chain" and rnd.random() < dopt_frac:
            sc["dopt"] = True
        if nilout_frac and sc.get("state") and sc.get("post") and not sc.get("shand") and sc["mode"] in ("pregel", "dag") \
                and sc.get("lower") != "chain" and rnd.random() < nilout_frac:
            # nodes declared with output type `any` whose body returns nil; the post-handler supplies the value (it must run for nil too)
            cand = [n for n in sc["nodes"] if n not in (sc.get("sub") or {}) and n not in sc.get("rerun", []) and n not in sc.get("echo", [])
                    and n not in sc.get("snodes", []) and not any(f["n"] == n for f in sc.get("fail", []))]
            sc["nilout"] = [n for n in cand if rnd.random() < 0.5]
        sanitize(sc)
        if fail_variants and sc.get("fail") and not sc.get("nofv"):
            # spread the failure kinds TLC does not enumerate: a second failing node in parallel, cancellation from inside a node
            r = rnd.random()
            others = [n for n in sc["nodes"] if n != sc["fail"][0]["n"]]
            if r < 0.15 and others:
                sc["fail"] = sc["fail"] + [{"n": others[rnd.randrange(len(others))], "kind": sc["fail"][0]["kind"]}]
            elif r < 0.30:
                sc["fail"] = [{"n": sc["fail"][0]["n"], "kind": "cancel"}]
            elif r < 0.42 and sc["fail"][0]["kind"] == "err":
                sc["fail"] = [{"n": sc["fail"][0]["n"], "kind": "serr"}]      # error item in the middle of the node's output stream
            elif r < 0.54 and sc["fail"][0]["kind"] == "panic":
                # a panic inside the lazily converted output stream of the node; other nodes stream too, so that fan-ins merge
                sc["fail"] = [{"n": sc["fail"][0]["n"], "kind": "spanic"}]
                sc["snodes"] = list(sc["nodes"])
            elif 0.54 <= r < 0.70 and sc["fail"][0]["n"] not in (sc.get("sub") or {}) and sc["fail"][0]["n"] not in sc.get("rerun", []):
                # the failure surfaces in the node's state pre-handler (the body never runs) or post-handler (after the body)
                sc["state"] = True
                if r < 0.62:
                    sc["fail"] = [{"n": sc["fail"][0]["n"], "kind": "prerr"}]
                else:
                    sc["post"] = True
                    sc["fail"] = [{"n": sc["fail"][0]["n"], "kind": "posterr"}]
                sc["shand"] = rnd.random() < 0.4
        sc.setdefault("maxcalls", 8)
    return scs


def replay(scs, *, race=False, timeout=1200, repo=None):
    d = vlib.mkscratch("verif-eng-")
    cases, out = os.path.join(d, "cases.ndjson"), os.path.join(d, "obs.ndjson")
    with open(cases, "w") as fh:
        for sc in scs:
            fh.write(json.dumps(sc, separators=(",", ":")) + "\n")
    code, output, wall = vlib.go_test("compose", HARNESS_OVERLAY, "^TestVerifEngine$", race=race, timeout=timeout, repo=repo, args=["-test.v"],
                                      env={"VERIF_CASES": cases, "VERIF_OUT": out})
    if code != 0:
        m = re.search(r"panic: verif injected panic at (\S+?)::", output)
        if m and "[recovered]" not in output[m.start():m.start() + 200]:
            raise ProcessKilled(m.group(1), output[-2500:])
    vlib.go_must_run(code, output, "engine replay")
    if "VERIF-ENGINE scenarios=%d" % len(scs) not in output:
        raise Inconclusive("engine replay: harness did not report all scenarios\n" + output[-3000:])
    lines = vlib.read_lines(out)
    return lines, wall


class FrameworkCrash(Exception):
    """the test process was killed by a Go runtime fatal error or an unrecovered panic raised in eino's own (non-test) code"""
    def __init__(self, what, frame, output):
        Exception.__init__(self, "%s in %s" % (what, frame))
        self.what, self.frame, self.output = what, frame, output


def framework_crash(output):
    """(what, top eino frame) when the process died with the innermost eino frame of the faulting goroutine in non-test code"""
    m = re.search(r"^(fatal error: [^\n]*|panic: [^\n]*)$", output, re.M)
    if not m:
        return None
    blk = output[m.start():]
    g = re.search(r"^goroutine \d+ \[[^\]]*\]:\n", blk, re.M)
    if not g:
        return None
    stack = blk[g.end():].split("\n\n")[0]
    frames = re.findall(r"^(github\.com/cloudwego/eino/\S+)\(.*\n\s+(\S+\.go):(\d+)", stack, re.M)
    if not frames:
        return None
    fn, f, ln = frames[0]
    if f.endswith("_test.go") or "zz_verif" in f:
        return None
    what = m.group(1)[:80]
    return what, "%s@%s:%s" % (fn.replace("github.com/cloudwego/eino/", ""), os.path.basename(f), ln)


def replay_concurrent(scs, *, callers=4, race=False, timeout=1500, repo=None):
    """C09: every scenario compiled once and driven by `callers` concurrent logical runs (harness TestVerifConcurrent).
    Returns (observation lines, wall seconds, raw go test output)."""
    d = vlib.mkscratch("verif-conc-")
    cases, out = os.path.join(d, "cases.ndjson"), os.path.join(d, "obs.ndjson")
    with open(cases, "w") as fh:
        for sc in scs:
            fh.write(json.dumps(sc, separators=(",", ":")) + "\n")
    code, output, wall = vlib.go_test("compose", HARNESS_OVERLAY, "^TestVerifConcurrent$", race=race, timeout=timeout, repo=repo, args=["-test.v"],
                                      env={"VERIF_CASES": cases, "VERIF_OUT": out, "VERIF_CALLERS": str(callers)})
    if race and "WARNING: DATA RACE" in output:
        return (vlib.read_lines(out) if os.path.exists(out) else []), wall, output
    if code != 0:
        fc = framework_crash(output)
        if fc:
            raise FrameworkCrash(fc[0], fc[1], output[-6000:])
    vlib.go_must_run(code, output, "concurrent replay")
    if "VERIF-CONCURRENT scenarios=%d" % len(scs) not in output:
        raise Inconclusive("concurrent replay: harness did not report all scenarios\n" + output[-3000:])
    return vlib.read_lines(out), wall, output


def race_reports(output):
    """DATA RACE blocks of a `go test -race` output that have a frame in eino's own (non-test) code; top_frame = first such frame."""
    reps = []
    for blk in output.split("WARNING: DATA RACE")[1:]:
        blk = blk.split("==================")[0]
        frames = re.findall(r"^\s+(github\.com/cloudwego/eino/\S+)\(.*\n\s+(\S+\.go):(\d+)", blk, re.M)
        own = [(fn, f, ln) for fn, f, ln in frames if not f.endswith("_test.go") and "zz_verif" not in f]
        if own:
            reps.append({"top_frame": own[0][0].replace("github.com/cloudwego/eino/", ""), "file": "%s:%s" % (os.path.basename(own[0][1]), own[0][2]), "text": blk[:1500]})
    return reps


def validate(lines, *, nproc=None, timeout=1800):
    res = vlib.validate_traces("RunObs", "RunObs.cfg", lines, nproc=nproc, timeout=timeout, stack="256m")
    return res


def index_cases(lines):
    """case id -> (case dict, list of its observation lines)"""
    idx, cur = {}, None
    for ln in lines:
        if ln.startswith('{"ev":"case"'):
            c = json.loads(ln)
            cur = c["id"]
            idx[cur] = (c, [ln])
        elif cur is not None:
            idx[cur][1].append(ln)
    return idx


if __name__ == "__main__":
    # experimentation helper:  python3 lib/engine.py count '<json consts>'
    consts = json.loads(sys.argv[2])
    t0 = time.time()
    scs, run = gen_family("x", consts)
    print(len(scs), "scenarios", run.generated, run.distinct, "%.1fs" % (time.time() - t0))
